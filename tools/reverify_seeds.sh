#!/bin/bash
# Re-confirm every kept seed in /verif/seeded against the current /repo HEAD in a scratch worktree:
# patch applies, full suite passes with it, demo fails with it and passes without it.
# Writes seeded/<id>/meta.json:reconfirmed and seeded/REVERIFY.txt. usage: reverify_seeds.sh [ids...]
set -u
SCR=/tmp/seedreverify
rm -rf $SCR; mkdir -p $SCR
git -C /repo worktree prune
git -C /repo worktree add -q --detach $SCR/wt HEAD || exit 1
export CARGO_TARGET_DIR=$SCR/target CARGO_NET_OFFLINE=true
cd $SCR/wt
head=$(git rev-parse --short HEAD)
[ $# -gt 0 ] && ids="$@" || ids=$(ls /verif/seeded | grep '^C[0-9]*-[0-9]*$')
for id in $ids; do
  d=/verif/seeded/$id
  git reset -q --hard HEAD; git clean -fdq
  if ! git apply $d/patch.diff 2>/dev/null; then echo "$id head=$head patch=DOES-NOT-APPLY" | tee -a /verif/seeded/REVERIFY.txt; continue; fi
  if cargo test --offline >$SCR/$id.suite.log 2>&1; then suite=pass; else suite=FAIL; fi
  cp $d/demo.rs tests/seed_demo.rs
  if cargo test --offline --test seed_demo >$SCR/$id.with.log 2>&1; then with=pass; else with=fail; fi
  git checkout -q -- src test_scenarios Cargo.toml 2>/dev/null
  if cargo test --offline --test seed_demo >$SCR/$id.without.log 2>&1; then without=pass; else without=fail; fi
  rm -f tests/seed_demo.rs
  echo "$id head=$head suite_with_patch=$suite demo_with=$with demo_without=$without" | tee -a /verif/seeded/REVERIFY.txt
  python3 - "$d/meta.json" "$head" "$suite" "$with" "$without" <<'PY'
import json,sys
p=sys.argv[1]; m=json.load(open(p))
m['reconfirmed']={'repo_head':sys.argv[2],'full_suite_with_patch':sys.argv[3],'demo_with_patch':sys.argv[4],'demo_without_patch':sys.argv[5]}
json.dump(m,open(p,'w'),indent=1)
PY
done
cd /; git -C /repo worktree remove --force $SCR/wt; rm -rf $SCR
