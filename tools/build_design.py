#!/usr/bin/env python3
"""Regenerate §9 of DESIGN.md from docs/DESIGN_9.template.md (+ seed table, known-finding counts)."""
import json,subprocess,re,collections
d=open('/verif/DESIGN.md').read()
i=d.find('\n## 9. As built')
if i>=0: d=d[:i]
t=open('/verif/docs/DESIGN_9.template.md').read()
k=json.load(open('/verif/known_findings.json'))
cnt=collections.Counter(e['property'] for e in k['known'])
t=t.replace('@KNOWN@',f"{len(k['known'])} ({', '.join(f'{p} {n}' for p,n in sorted(cnt.items()))})")
table=subprocess.run(['python3','/verif/tools/seed_table.py'],capture_output=True,text=True).stdout
t=t.replace('@SEEDTABLE@',open('/verif/docs/seed_notes.md').read()+'\n'+table)
# how many seeds were caught by a property that has known findings (i.e. not masked)
masked=0
for line in table.splitlines():
    m=re.match(r'\| (C\d\d)-\d+ \|.*\| yes \|',line)
    if m and cnt.get(m.group(1),0)>0: masked+=1
t=t.replace('@MASKCOUNT@',f"{masked} seeded changes against properties that already have listed findings were each reported under a new key")
import glob
rows=["| id | tier | level | evaluations | states / transitions | traces replayed | distinct | exhaustive | wall s |","|---|---|---|---|---|---|---|---|---|"]
for f in sorted(glob.glob('/verif/evidence/C*.json')):
    e=json.load(open(f)); c=e.get('coverage',{})
    st=f"{c.get('states','')} / {c.get('transitions','')}" if 'states' in c else ''
    rows.append(f"| {e['property_id']} | {e.get('tier')} | {e.get('level')} | {c.get('evaluations','')} | {st} | {c.get('traces_validated_against_impl','')} | {c.get('distinct_nontrivial','')} | {c.get('exhaustive','')} | {round(e.get('wall_s',0),1)} |")
t=t.replace('@EVTABLE@','\n'.join(rows))
t=t.replace('@NFIX@',str(len(k['fixed'])))
open('/verif/DESIGN.md','w').write(d.rstrip('\n')+'\n'+t)
print('DESIGN.md rebuilt;',len(k['known']),'known,',len(k['fixed']),'fixed')
