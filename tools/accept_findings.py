#!/usr/bin/env python3
"""Merge reviewed findings from replays/<prop>.findings-dump.json into known_findings.json.
usage: accept_findings.py <prop> [key-substring ...]   (only keys containing one of the substrings; all if none)
Run a check with VERIF_DUMP_FINDINGS=1 first. This is a manual, reviewed step: checks never write the file."""
import json, sys, os
root = os.path.dirname(os.path.dirname(os.path.abspath(__file__)))
prop = sys.argv[1]; subs = sys.argv[2:]
kf = json.load(open(os.path.join(root, "known_findings.json")))
dump = json.load(open(os.path.join(root, "replays", f"{prop}.findings-dump.json")))
have = {(e["property"], e["key"]) for e in kf["known"]}
n = 0
for e in dump:
    if subs and not any(s in e["key"] for s in subs): continue
    if (prop, e["key"]) in have: continue
    ex = e.get("example")
    kf["known"].append({"property": prop, "key": e["key"], "what": e["what"][:300], "example": ex})
    n += 1
kf["known"].sort(key=lambda e: (e["property"], e["key"]))
json.dump(kf, open(os.path.join(root, "known_findings.json"), "w"), indent=1, ensure_ascii=False)
print(f"added {n} entries for {prop}; total {len(kf['known'])}")
