#!/usr/bin/env python3
"""prune_known.py <prop> : drop the known findings of <prop> that the latest findings dump
(VERIF_DUMP_FINDINGS=1 ./check <prop> thorough) no longer reproduces. Run only after a fix."""
import json,sys
prop=sys.argv[1]
k=json.load(open('/verif/known_findings.json'))
d=json.load(open(f'/verif/replays/{prop}.findings-dump.json'))
items=d if isinstance(d,list) else d.get('findings',d)
seen={f['key'] for f in items}
keep=[];gone=[]
for e in k['known']:
    (gone if e['property']==prop and e['key'] not in seen else keep).append(e)
k['known']=keep
json.dump(k,open('/verif/known_findings.json','w'),indent=1)
print(f"{prop}: removed {len(gone)} stale entries, kept {sum(1 for e in keep if e['property']==prop)}")
for e in gone: print("  -",e['key'])
