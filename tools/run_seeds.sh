#!/bin/bash
# Run the checks against every confirmed seeded change, in a scratch copy (so /repo stays free):
#   $SCR/repo  = worktree of /repo HEAD with the seed patch applied
#   $SCR/verif = copy of /verif whose harness depends on $SCR/repo
# usage: run_seeds.sh [seed-id ...]        results: /verif/seeded/RESULTS.tsv (+ .md)
# (the registered interface — apply to /repo itself, ./check, undo — is exercised by tools/run_seed_on_repo.sh)
set -u
SCR=${SCR:-/tmp/seedrun}
CHECKS=${CHECKS:-$(python3 -c "import json;print(' '.join(c['id'] for c in json.load(open('/verif/tools/checks.json'))))")}
rm -rf $SCR; mkdir -p $SCR
git -C /repo worktree prune
git -C /repo worktree add -q --detach $SCR/repo HEAD || exit 1
rsync -a --exclude harness/target --exclude replays --exclude .git /verif/ $SCR/verif/
sed -i "s#path = \"/repo\"#path = \"$SCR/repo\"#" $SCR/verif/harness/Cargo.toml
export CARGO_NET_OFFLINE=true VERIF_DIR=$SCR/verif VERIF_THREADS=${VERIF_THREADS:-16}
cd $SCR/verif/harness && cargo build --release --offline >$SCR/build0.log 2>&1 || { echo "scratch build failed"; tail $SCR/build0.log; exit 2; }
OUT=${OUT:-/verif/seeded/RESULTS.tsv}   # several instances (different SCR) must use different OUT files; merge with tools/merge_results.py
[ $# -gt 0 ] && seeds="$@" || seeds=$(ls /verif/seeded | grep '^C[0-9]*-[0-9]*$')
[ -f $OUT ] || echo -e "seed\tcheck\texit\tnew_violation_keys" > $OUT
# baseline on the unchanged scratch tree: every check must exit 0
for c in $CHECKS; do
  $SCR/verif/harness/target/release/vcheck $c quick >$SCR/base.$c.log 2>&1; rc=$?
  [ $rc -eq 0 ] || echo -e "BASELINE\t$c\t$rc\t(unchanged tree must exit 0!)" | tee -a $OUT
done
for s in $seeds; do
  cd $SCR/repo; git checkout -q -- .; 
  git apply /verif/seeded/$s/patch.diff || { echo -e "$s\t-\tpatch-failed\t" | tee -a $OUT; continue; }
  cd $SCR/verif/harness
  if ! cargo build --release --offline >$SCR/build.$s.log 2>&1; then echo -e "$s\t-\tbuild-failed\t" | tee -a $OUT; continue; fi
  sed -i "/^$s\t/d" $OUT
  for c in $CHECKS; do
    timeout 600 $SCR/verif/harness/target/release/vcheck $c quick >$SCR/$s.$c.log 2>&1; rc=$?
    keys=$(grep '^VIOLATION' $SCR/$s.$c.log | sed 's/.*key=\([^ ]*\).*/\1/' | head -4 | tr '\n' ' ')
    n=$(grep -c '^VIOLATION' $SCR/$s.$c.log)
    echo -e "$s\t$c\t$rc\t$n: $keys" >> $OUT
  done
  owner=${s%-*}
  if [ "$(grep -P "^$s\t$owner\t" $OUT | cut -f3)" != "1" ]; then
    timeout 1800 $SCR/verif/harness/target/release/vcheck $owner thorough >$SCR/$s.$owner.thorough.log 2>&1; rc=$?
    keys=$(grep '^VIOLATION' $SCR/$s.$owner.thorough.log | sed 's/.*key=\([^ ]*\).*/\1/' | head -4 | tr '\n' ' ')
    echo -e "$s\t$owner:thorough\t$rc\t$(grep -c '^VIOLATION' $SCR/$s.$owner.thorough.log): $keys" >> $OUT
  fi
  echo "$s: owner $owner -> $(grep -P "^$s\t$owner\t" $OUT | cut -f3,4 | cut -c1-150) | caught by: $(grep -P "^$s\t" $OUT | awk -F'\t' '$3==1{print $2}' | tr '\n' ' ')"
done
cd /; git -C /repo worktree remove --force $SCR/repo; rm -rf $SCR/verif/harness/target
echo ALLDONE
