#!/bin/bash
# Confirm each sub-agent seed against the *current* /repo HEAD in a scratch worktree:
#   patch applies, full suite passes with it, demo fails with it and passes without it.
# Kept seeds are copied to /verif/seeded/<id>-<n>/ with meta.json extended by what was run.
set -u
SCR=/tmp/seedverify
SRC=${SRC:-/tmp/seed}      # where the sub-agents left out/<n>/
OFFSET=${OFFSET:-0}        # added to <n> in the kept id (second round: SRC=/tmp/seed2 OFFSET=2)
ONLY=${ONLY:-}             # optional: space separated property ids
rm -rf $SCR; mkdir -p $SCR
git -C /repo worktree prune
git -C /repo worktree add -q --detach $SCR/wt HEAD || exit 1
export CARGO_TARGET_DIR=$SCR/target CARGO_NET_OFFLINE=true
cd $SCR/wt
LOG=$SCR/log.txt; : > $LOG
for d in $SRC/C*/out/*/; do
  pid=$(echo $d | sed "s#$SRC/\\(C[0-9]*\\)/out/.*#\\1#"); n=$(basename $d); id=$pid-$((n+OFFSET))
  [ -n "$ONLY" ] && ! echo " $ONLY " | grep -q " $pid " && continue
  [ -f $d/patch.diff ] || continue
  git checkout -q -- . ; git clean -fdq tests
  res="$id"
  if ! git apply --check $d/patch.diff 2>/dev/null; then
     if ! git apply -3 $d/patch.diff 2>/dev/null; then echo "$id: PATCH-DOES-NOT-APPLY" | tee -a $LOG; git checkout -q -- .; git reset -q --hard; continue; fi
     git reset -q; git diff > $SCR/$id.rebased.diff
  else
     git apply $d/patch.diff; cp $d/patch.diff $SCR/$id.rebased.diff
  fi
  # suite with patch (demo not yet present)
  if cargo test --offline >$SCR/$id.suite.log 2>&1; then suite=pass; else suite=FAIL; fi
  cp $d/demo.rs tests/seed_demo.rs
  if cargo test --offline --test seed_demo >$SCR/$id.demo_with.log 2>&1; then with=pass; else with=fail; fi
  git checkout -q -- . 2>/dev/null; git stash -q 2>/dev/null; git checkout -q -- src test_scenarios
  cp $d/demo.rs tests/seed_demo.rs
  if cargo test --offline --test seed_demo >$SCR/$id.demo_without.log 2>&1; then without=pass; else without=fail; fi
  rm -f tests/seed_demo.rs
  echo "$id: suite_with_patch=$suite demo_with=$with demo_without=$without" | tee -a $LOG
  if [ $suite = pass ] && [ $with = fail ] && [ $without = pass ]; then
     mkdir -p /verif/seeded/$id
     cp $SCR/$id.rebased.diff /verif/seeded/$id/patch.diff; cp $d/demo.rs /verif/seeded/$id/demo.rs
     python3 - "$d/meta.json" "/verif/seeded/$id/meta.json" "$(git -C /repo rev-parse --short HEAD)" <<'PY'
import json,sys
m=json.load(open(sys.argv[1]))
m['confirmed_against_repo_head']=sys.argv[3]
m['confirmed']={'patch_applies':True,'full_suite_with_patch':'pass','demo_with_patch':'fail','demo_without_patch':'pass','how':'tools/verify_seeds.sh in a scratch worktree (removed afterwards)'}
json.dump(m,open(sys.argv[2],'w'),indent=1)
PY
  fi
done
cd /; git -C /repo worktree remove --force $SCR/wt; rm -rf $SCR/target
cat $LOG >> /verif/seeded/VERIFY_LOG.txt
echo DONE >> $LOG
