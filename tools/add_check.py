import json,sys
p='/verif/tools/checks.json'; c=json.load(open(p))
new=json.loads(sys.stdin.read())
c=[x for x in c if x['id']!=new['id']]+[new]
c.sort(key=lambda x:x['id'])
json.dump(c,open(p,'w'),indent=1)
