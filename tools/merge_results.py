#!/usr/bin/env python3
"""merge_results.py f1.tsv f2.tsv ... : merge per-instance result files into seeded/RESULTS.tsv (later rows win)."""
import sys,collections
rows=collections.OrderedDict()
files=['/verif/seeded/RESULTS.tsv']+sys.argv[1:]
for f in files:
    try:
        for l in open(f):
            p=l.rstrip('\n').split('\t')
            if len(p)<4 or p[0]=='seed': continue
            rows[(p[0],p[1])]=p
    except FileNotFoundError: pass
with open('/verif/seeded/RESULTS.tsv','w') as o:
    o.write('seed\tcheck\texit\tnew_violation_keys\n')
    for k in sorted(rows): o.write('\t'.join(rows[k])+'\n')
print(len(rows),'rows')
