#!/usr/bin/env python3
"""Render seeded/RESULTS.tsv + seeded/*/meta.json as the markdown table of DESIGN.md §9.7 (stdout)."""
import json,os,collections
res=collections.defaultdict(dict)
for l in open('/verif/seeded/RESULTS.tsv'):
    p=l.rstrip('\n').split('\t')
    if len(p)<4 or p[0] in ('seed','BASELINE'): continue
    res[p[0]][p[1]]=(p[2],p[3])
rows=[]
for s in sorted(os.listdir('/verif/seeded')):
    d='/verif/seeded/'+s
    if not os.path.isfile(d+'/meta.json'): continue
    m=json.load(open(d+'/meta.json'))
    owner=s.split('-')[0]
    r=res.get(s,{})
    caught=[c for c,(rc,_) in sorted(r.items()) if rc=='1']
    own='yes' if owner in caught else ('yes (thorough tier)' if r.get(owner+':thorough',('0',''))[0]=='1' else ('—' if not r else 'NO'))
    others=' '.join(c for c in caught if c!=owner and ':' not in c)
    key=''
    if owner in r and r[owner][0]=='1':
        key=r[owner][1].split(': ',1)[-1].split(' ')[0]
    title=m.get('title','').replace('|','/')
    if len(title)>150: title=title[:147]+'…'
    rows.append(f"| {s} | {title} | {own} | {others} | `{key}` |")
print("| seed | change (one line, from the author's meta.json) | caught by its own check | also caught by | first new key of the own check |")
print("|---|---|---|---|---|")
print('\n'.join(rows))
n=len(rows); c=sum(1 for r in rows if '| yes' in r)
print(f"\n{c} of {n} seeded changes are reported by the check of the property they were written against"
      f" (quick tier, each as an unlisted key next to the listed known findings of that property).")
