#!/usr/bin/env python3
"""Compare known_findings.json with the dumps of tools/sweep_all.sh (union of both tiers).
   reconcile_known.py            report stale and new keys per property
   reconcile_known.py --prune    drop stale keys (only after a fix made them disappear)
   reconcile_known.py --accept P [substr]  add the new keys of property P (after triage!)"""
import json,sys,glob,os
k=json.load(open('/verif/known_findings.json'))
seen={}
for f in glob.glob('/tmp/sweep/C*.json'):
    p=os.path.basename(f).split('.')[0]
    d=json.load(open(f)); items=d if isinstance(d,list) else d.get('findings',d)
    for it in items: seen.setdefault(p,{})[it['key']]=it
known={}
for e in k['known']: known.setdefault(e['property'],{})[e['key']]=e
args=sys.argv[1:]
for p in sorted(set(seen)|set(known)):
    if p not in seen: print(p,'no dump'); continue
    stale=[x for x in known.get(p,{}) if x not in seen[p]]
    new=[x for x in seen[p] if x not in known.get(p,{})]
    print(f"{p}: known={len(known.get(p,{}))} seen={len(seen[p])} stale={len(stale)} new={len(new)}")
    if '--prune' in args:
        k['known']=[e for e in k['known'] if not (e['property']==p and e['key'] in stale)]
    else:
        for x in stale[:200]: print('   stale',x)
    if '--accept' in args and args[args.index('--accept')+1]==p:
        sub=args[args.index('--accept')+2:] 
        for x in new:
            if sub and not any(s in x for s in sub): continue
            it=seen[p][x]; k['known'].append({'property':p,'key':x,'what':it.get('what','')[:300],'example':it.get('example')})
    else:
        for x in new[:200]: print('   new  ',x,'|',seen[p][x].get('what','')[:120].replace('\n','\\n'))
if '--prune' in args or '--accept' in args:
    k['known'].sort(key=lambda e:(e['property'],e['key']))
    json.dump(k,open('/verif/known_findings.json','w'),indent=1); print('written')
