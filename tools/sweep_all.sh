#!/bin/bash
# Run every check in both tiers in findings-collection mode and keep the dumps under /tmp/sweep.
# usage: tools/sweep_all.sh [ids...]     then: python3 tools/reconcile_known.py
mkdir -p /tmp/sweep; cd /verif
ids=${@:-$(python3 -c "import json;print(' '.join(c['id'] for c in json.load(open('/verif/tools/checks.json'))))")}
for c in $ids; do for t in quick thorough; do
  s=$(date +%s); VERIF_DUMP_FINDINGS=1 ./check $c $t > /tmp/sweep/$c.$t.log 2>&1; rc=$?
  cp replays/$c.findings-dump.json /tmp/sweep/$c.$t.json 2>/dev/null
  echo "$c $t rc=$rc $(( $(date +%s)-s ))s $(tail -1 /tmp/sweep/$c.$t.log | cut -c1-120)"
done; done
