#!/usr/bin/env python3
"""Regenerate MANIFEST.json from tools/checks.json (the list of built checks)."""
import json, os
here = os.path.dirname(os.path.abspath(__file__))
root = os.path.dirname(here)
checks = json.load(open(os.path.join(here, "checks.json")))
props = [json.loads(l) for l in open(os.path.join(root, "properties.jsonl"))]
ids = [p["id"] for p in props]
m = {
  "version": 1,
  "setup_cmd": "./vendor-patch/make_vendor.sh && cd harness && CARGO_NET_OFFLINE=true cargo build --release --offline",
  "hooks": {
    "guard": "swift_mt_message_verif",
    "enable": "no hooks are needed: every observation point is public API of the crate; checks build /repo's working tree as a path dependency of /verif/harness",
    "baseline_off_cmd": "cd /repo && cargo test --workspace --no-fail-fast --offline",
    "source_commits": [],
    "add_only": True
  },
  "engines": [
    {"name": "vcheck", "path": "harness/src", "serves_properties": [c["id"] for c in checks],
     "kind_free_text": "bounded exhaustive exploration of the real crate (path dependency on /repo) against reference models: explicit-state search with stateright over the real MessageParser / FieldConsumptionTracker, layout-automaton DFS with every trace replayed, full products / deviation-bounded enumeration of input spaces"}
  ],
  "checks": [],
  "not_applicable": [],
  "notes": "Every check: ./check <id> quick|thorough rebuilds harness + /repo working tree, exit 0 / 1 (VIOLATION line) / 2 machinery error. Known findings and repaired defects: known_findings.json. No hook in /repo; the only seams (ThreadRng words, datafake clock; used by C15) are patched into copies of the rand and datafake-rs crates under harness/vendor by vendor-patch/make_vendor.sh (offline, from the cargo registry). Seeded changes and which checks catch them: seeded/ and DESIGN.md section 9.7."
}
done = set()
for c in checks:
    done.add(c["id"])
    m["checks"].append({
      "property_id": c["id"],
      "quick_cmd": f"./check {c['id']} quick",
      "thorough_cmd": f"./check {c['id']} thorough",
      "evidence_file": f"evidence/{c['id']}.json",
      "replay_cmd_template": f"./check {c['id']} --replay {{path}}",
      "engine": "vcheck",
      "level_claimed": {"category": c["level"], "text": c["text"], "design_ref": c.get("design_ref", "DESIGN.md §5")},
      "level_note": c["note"],
      "technique": c["technique"],
    })
for i in ids:
    if i not in done:
        m["not_applicable"].append({"property_id": i, "reason": "check not built yet in this round (planned in DESIGN.md §5; the property admits a bounded exhaustive check)"})
json.dump(m, open(os.path.join(root, "MANIFEST.json"), "w"), indent=1)
print("claimed:", sorted(done), "not claimed:", [i for i in ids if i not in done])
