//! M1 — field grammar table (reference side). One entry per *kind* (= concrete field struct,
//! keyed by its tag). An entry gives
//!   * `rec`  : a recogniser for the documented format returning Accept(components) / Reject / Unspec,
//!   * `insts`: valid instances in the library's canonical spelling (typical / min / max boundaries,
//!              optional parts toggled) — every instance must be accepted by `rec` (self-check).
//! Sources: the `**Format:**` lines and doc comments of src/fields/field*.rs, the documented
//! helpers of swift_utils.rs / field_utils.rs, ISO 4217 and the Gregorian calendar.

use super::iso4217;
use regex::Regex;
use std::collections::HashMap;
use std::sync::OnceLock;

#[derive(Clone, Debug, PartialEq)]
pub enum CV {
    /// literal string
    S(String),
    /// party identifier / account: compared modulo one leading '/'
    P(String),
    /// unsigned integer compared by value
    N(u64),
    /// exact decimal, normalised ("1000.5", "10", "0.25")
    D(String),
    /// calendar day
    Date(i32, u32, u32),
    /// HHMM
    T(String),
    /// numbered line `n/text`: the JSON may hold the whole line or only the text
    NL(String),
    /// presence marker (e.g. the `N` of 37H) — matches a JSON `true`
    Flag,
}

#[derive(Clone, Debug, PartialEq)]
pub enum V {
    Accept(Vec<(&'static str, CV)>),
    Reject(&'static str),
    Unspec(&'static str),
}
impl V {
    pub fn is_accept(&self) -> bool { matches!(self, V::Accept(_)) }
}

pub struct Kind {
    pub tag: &'static str,
    /// registry name of the concrete struct that parses this kind
    pub ty: &'static str,
    pub rec: fn(&str) -> V,
    pub insts: fn() -> Vec<(&'static str, String)>,
}

// ---------------------------------------------------------------- helpers

/// the documented SWIFT `x` set of parse_swift_chars, ASCII only, without CR/LF
pub const XSET: &str = r##"A-Za-z0-9/\-?:().,'+{} %&*;<=>@\[\]_$!"#|"##;

fn re(cache: &'static OnceLock<Regex>, pat: &str) -> &'static Regex {
    cache.get_or_init(|| Regex::new(pat).expect("bad regex in M1"))
}
macro_rules! rx {
    ($pat:expr) => {{
        static C: OnceLock<Regex> = OnceLock::new();
        re(&C, &$pat.replace("{X}", XSET))
    }};
}

pub fn is_x_line(s: &str) -> bool { rx!(r"^[{X}]*$").is_match(s) }
fn all_ascii(s: &str) -> bool { s.is_ascii() }

pub fn valid_ymd(y: i32, m: u32, d: u32) -> bool {
    if !(1..=12).contains(&m) || d == 0 { return false; }
    let leap = (y % 4 == 0 && y % 100 != 0) || y % 400 == 0;
    let dim = match m { 1 | 3 | 5 | 7 | 8 | 10 | 12 => 31, 4 | 6 | 9 | 11 => 30, _ => if leap { 29 } else { 28 } };
    d <= dim
}
/// six ASCII digits naming a real date, century by the documented 50-year pivot
/// (00-49 -> 20xx, 50-99 -> 19xx, swift_utils::parse_date_yymmdd).
pub fn date6(s: &str) -> Option<(i32, u32, u32)> {
    if s.len() != 6 || !s.bytes().all(|b| b.is_ascii_digit()) { return None; }
    let yy: i32 = s[0..2].parse().ok()?;
    let m: u32 = s[2..4].parse().ok()?;
    let d: u32 = s[4..6].parse().ok()?;
    let y = if yy <= 49 { 2000 + yy } else { 1900 + yy };
    if valid_ymd(y, m, d) { Some((y, m, d)) } else { None }
}
pub fn hhmm(s: &str) -> bool {
    s.len() == 4 && s.bytes().all(|b| b.is_ascii_digit()) && s[0..2].parse::<u32>().unwrap() <= 23 && s[2..4].parse::<u32>().unwrap() <= 59
}
/// documented offset limit: up to 14 hours, minutes <= 59
pub fn offset_ok(s: &str) -> bool {
    s.len() == 4 && s.bytes().all(|b| b.is_ascii_digit()) && s[0..2].parse::<u32>().unwrap() <= 14 && s[2..4].parse::<u32>().unwrap() <= 59
}

/// normalise a decimal written with ',' : "0010,50" -> "10.5", "10," -> "10", "0,0" -> "0"
pub fn dec_norm_parts(int: &str, frac: &str) -> String {
    let i = int.trim_start_matches('0');
    let i = if i.is_empty() { "0" } else { i };
    let f = frac.trim_end_matches('0');
    if f.is_empty() { i.to_string() } else { format!("{i}.{f}") }
}

pub enum Amt { Ok(String, usize /*decimals written*/), NoSep(String), Dot, Bad(&'static str) }
/// `nd` amount: digits, exactly one ',', at least one digit before it, total length <= maxlen
pub fn amount(s: &str, maxlen: usize) -> Amt {
    if s.is_empty() { return Amt::Bad("amount.empty"); }
    if !all_ascii(s) { return Amt::Bad("amount.non-ascii"); }
    if s.contains('.') { return if s.bytes().all(|b| b.is_ascii_digit() || b == b'.') && s.matches('.').count() == 1 && s.as_bytes()[0].is_ascii_digit() { Amt::Dot } else { Amt::Bad("amount.non-decimal") }; }
    if s.starts_with('+') || s.starts_with('-') { return Amt::Bad("amount.sign"); }
    if s.bytes().any(|b| !(b.is_ascii_digit() || b == b',')) { return Amt::Bad("amount.non-decimal"); }
    let commas = s.matches(',').count();
    if commas > 1 { return Amt::Bad("amount.two-separators"); }
    if s.len() > maxlen { return Amt::Bad("amount.too-long"); }
    if commas == 0 { return Amt::NoSep(dec_norm_parts(s, "")); }
    let (i, f) = s.split_once(',').unwrap();
    if i.is_empty() { return Amt::Bad("amount.no-integer-part"); }
    Amt::Ok(dec_norm_parts(i, f), f.len())
}

pub enum Ccy { Iso(u8), Unknown, Bad }
pub fn ccy(s: &str) -> Ccy {
    if s.len() != 3 || !s.bytes().all(|b| b.is_ascii_uppercase()) { return Ccy::Bad; }
    match iso4217::minor_units(s) { Some(d) => Ccy::Iso(d), None => Ccy::Unknown }
}

/// BIC `4!a2!a2!c[3!c]`
pub enum Bic { Ok, Unspec, Bad }
pub fn bic(s: &str) -> Bic {
    if !all_ascii(s) || (s.len() != 8 && s.len() != 11) { return Bic::Bad; }
    if rx!(r"^[A-Z]{6}[A-Z0-9]{2}([A-Z0-9]{3})?$").is_match(s) { return Bic::Ok; }
    if rx!(r"^[A-Za-z]{6}[A-Za-z0-9]{2}([A-Za-z0-9]{3})?$").is_match(s) { return Bic::Unspec; }
    Bic::Bad
}

/// party identifier line `[/1!a][/34x]` as documented by parse_party_identifier
/// (/1!a/34x, /2!a/34x, //XX…, /34x).  Some(true)=documented form, Some(false)=clearly malformed, None=unspecified
pub fn party_line(l: &str) -> Option<bool> {
    if !l.starts_with('/') { return Some(false); }
    if !all_ascii(l) || !is_x_line(l) { return Some(false); }
    if l.len() > 38 { return Some(false); }
    if rx!(r"^/[^/][{X}]{0,33}$").is_match(l) && !l[1..].contains('/') { return Some(true); }
    if rx!(r"^/[A-Z]/[{X}]{1,34}$").is_match(l) && !l[3..].contains('/') { return Some(true); }
    if rx!(r"^//[A-Z]{2}[A-Za-z0-9]{0,31}$").is_match(l) { return Some(true); }
    None
}

fn acc(v: Vec<(&'static str, CV)>) -> V { V::Accept(v) }
fn s(x: &str) -> CV { CV::S(x.to_string()) }
fn p(x: &str) -> CV { CV::P(x.trim_start_matches('/').to_string()) }

fn lines_of(c: &str) -> Vec<&str> { c.split('\n').collect() }

/// n*Wx text block
fn text_block(c: &str, max_lines: usize, width: usize, name: &'static str) -> V {
    if c.is_empty() { return V::Reject("lines=0"); }
    let ls = lines_of(c);
    if ls.iter().any(|l| !all_ascii(l)) { return V::Reject("charset=non-ascii"); }
    if ls.iter().any(|l| !is_x_line(l)) { return V::Reject("charset=non-x"); }
    if ls.iter().any(|l| l.len() > width) { return V::Reject("line.len=max+1"); }
    if ls.iter().any(|l| l.is_empty()) { return V::Unspec("empty-line"); }
    if ls.len() > max_lines { return V::Reject("lines=max+1"); }
    acc(ls.iter().map(|l| (name, s(l))).collect())
}

fn reference(c: &str, max: usize, slash_rules_documented: bool) -> V {
    if c.is_empty() { return V::Unspec("empty"); }
    if !all_ascii(c) { return V::Reject("charset=non-ascii"); }
    if c.contains('\n') { return V::Reject("lines=2"); }
    if !is_x_line(c) { return V::Reject("charset=non-x"); }
    if c.len() > max { return V::Reject("len=max+1"); }
    if c.starts_with('/') || c.ends_with('/') || c.contains("//") {
        return if slash_rules_documented { V::Reject("slash-rule") } else { V::Unspec("slash-rule") };
    }
    acc(vec![("reference", s(c))])
}

/// ccy + amount, `3!a15d`
fn ccy_amount(c: &str, non_commodity: bool, by_ccy: bool) -> Result<Vec<(&'static str, CV)>, V> {
    if !all_ascii(c) { return Err(V::Reject("charset=non-ascii")); }
    if c.len() < 4 { return Err(V::Reject("too-short")); }
    let (cur, a) = c.split_at(3);
    let minor = match ccy(cur) { Ccy::Bad => return Err(V::Reject("currency.shape")), Ccy::Unknown => None, Ccy::Iso(d) => Some(d) };
    if non_commodity && iso4217::COMMODITIES.contains(&cur) { return Err(V::Reject("currency.commodity")); }
    match amount(a, 15) {
        Amt::Bad(w) => Err(V::Reject(w)),
        Amt::Dot => Err(V::Unspec("amount.dot")),
        Amt::NoSep(v) => { if minor.is_none() { return Err(V::Unspec("currency.not-iso")); } let _ = v; Err(V::Unspec("amount.no-separator")) }
        Amt::Ok(v, nd) => {
            match minor {
                None => Err(V::Unspec("currency.not-iso")),
                Some(255) => Err(V::Unspec("currency.no-minor-unit")),
                Some(d) => {
                    if by_ccy && nd > d as usize { return Err(V::Reject("amount.too-many-decimals")); }
                    if v == "0" { return Err(V::Unspec("amount.zero")); }
                    Ok(vec![("currency", s(cur)), ("amount", CV::D(v))])
                }
            }
        }
    }
}

/// accept a no-separator integer amount as value carrier (used by instance self-parsing only)
pub fn ccy_amount_lenient(c: &str) -> Option<(String, String)> {
    if c.len() < 4 || !c.is_ascii() { return None; }
    let (cur, a) = c.split_at(3);
    if !matches!(ccy(cur), Ccy::Iso(_)) { return None; }
    match amount(a, 15) { Amt::Ok(v, _) | Amt::NoSep(v) => Some((cur.to_string(), v)), _ => None }
}

// ---------------------------------------------------------------- recognisers

fn rec_11x(c: &str) -> V {
    // 3!n6!n[4!n][6!n]
    if !all_ascii(c) { return V::Reject("charset=non-ascii"); }
    let Some(m) = rx!(r"^([0-9]{3})([0-9]{6})([0-9]{4})?([0-9]{6})?$").captures(c) else { return V::Reject("shape"); };
    // NOTE: 11R/11S/11 carry a 6!n date; one meaning everywhere (C11) = documented pivot
    let Some((y, mo, d)) = date6(&m[2]) else { return V::Reject("date.invalid"); };
    let mut v = vec![("message_type", s(&m[1])), ("date", CV::Date(y, mo, d))];
    if let Some(x) = m.get(3) { v.push(("session_number", s(x.as_str()))); }
    if let Some(x) = m.get(4) { if m.get(3).is_none() { return V::Unspec("sequence-without-session"); } v.push(("input_sequence_number", s(x.as_str()))); }
    acc(v)
}
fn rec_11(c: &str) -> V {
    if !all_ascii(c) { return V::Reject("charset=non-ascii"); }
    let Some(m) = rx!(r"^([0-9]{3})([0-9]{6})$").captures(c) else { return V::Reject("shape"); };
    let Some((y, mo, d)) = date6(&m[2]) else { return V::Reject("date.invalid"); };
    acc(vec![("message_type", s(&m[1])), ("date", CV::Date(y, mo, d))])
}
fn rec_12(c: &str) -> V {
    if rx!(r"^[0-9]{3}$").is_match(c) { acc(vec![("type_code", s(c))]) } else { V::Reject("shape") }
}
fn rec_13c(c: &str) -> V {
    // /8c/4!n1!x4!n ; valid codes documented
    if !all_ascii(c) { return V::Reject("charset=non-ascii"); }
    let Some(m) = rx!(r"^/([^/\n]*)/(.{4})(.)(.{4})$").captures(c) else { return V::Reject("shape"); };
    const CODES: [&str; 5] = ["SNDTIME", "CLSTIME", "RNCTIME", "REJTIME", "CUTTIME"];
    if !CODES.contains(&&m[1]) { return V::Reject("code"); }
    if !hhmm(&m[2]) { return V::Reject("time.invalid"); }
    if &m[3] != "+" && &m[3] != "-" { return V::Reject("sign"); }
    if !offset_ok(&m[4]) { return V::Reject("offset.invalid"); }
    acc(vec![("code", s(&m[1])), ("time", CV::T(m[2].to_string())), ("sign", s(&m[3])), ("offset", s(&m[4]))])
}
fn rec_13d(c: &str) -> V {
    if !all_ascii(c) { return V::Reject("charset=non-ascii"); }
    let Some(m) = rx!(r"^(.{6})(.{4})(.)(.{4})$").captures(c) else { return V::Reject("shape"); };
    let Some((y, mo, d)) = date6(&m[1]) else { return V::Reject("date.invalid"); };
    if !hhmm(&m[2]) { return V::Reject("time.invalid"); }
    if &m[3] != "+" && &m[3] != "-" { return V::Reject("sign"); }
    if !offset_ok(&m[4]) { return V::Reject("offset.invalid"); }
    acc(vec![("date", CV::Date(y, mo, d)), ("time", CV::T(m[2].to_string())), ("offset_sign", s(&m[3])), ("offset", s(&m[4]))])
}
fn rec_19(c: &str) -> V {
    match amount(c, 17) { Amt::Ok(v, _) => acc(vec![("amount", CV::D(v))]), Amt::NoSep(_) => V::Unspec("amount.no-separator"), Amt::Dot => V::Unspec("amount.dot"), Amt::Bad(w) => V::Reject(w) }
}
fn rec_20(c: &str) -> V { reference(c, 16, true) }
fn rec_21(c: &str) -> V { reference(c, 16, true) }
fn rec_ref16(c: &str) -> V { reference(c, 16, true) }
fn rec_ref35(c: &str) -> V { reference(c, 35, true) }
fn rec_23(c: &str) -> V {
    // 3!a[2!n]11x ; days only for NOTICE
    if !all_ascii(c) { return V::Reject("charset=non-ascii"); }
    if c.contains('\n') { return V::Reject("lines=2"); }
    if c.len() < 4 { return V::Reject("too-short"); }
    if !rx!(r"^[A-Z]{3}").is_match(c) { return if rx!(r"^[A-Za-z]{3}").is_match(c) { V::Unspec("lower-case-code") } else { V::Reject("function-code") }; }
    let rest = &c[3..];
    if !is_x_line(rest) { return V::Reject("charset=non-x"); }
    let two_digits = rest.len() >= 2 && rest.as_bytes()[0].is_ascii_digit() && rest.as_bytes()[1].is_ascii_digit();
    if two_digits {
        if &c[0..3] != "NOT" { return V::Unspec("digits-after-non-notice-code"); }
        let days: u64 = rest[0..2].parse().unwrap();
        let r = &rest[2..];
        if r.is_empty() { return V::Unspec("reference-empty"); }
        if r.len() > 11 { return V::Reject("reference.len=max+1"); }
        if days == 0 { return V::Unspec("days=00"); }
        return acc(vec![("function_code", s(&c[0..3])), ("days", CV::N(days)), ("reference", s(r))]);
    }
    if rest.len() > 11 { return V::Reject("reference.len=max+1"); }
    acc(vec![("function_code", s(&c[0..3])), ("reference", s(rest))])
}
fn rec_23b(c: &str) -> V {
    if !all_ascii(c) { return V::Reject("charset=non-ascii"); }
    if c.len() != 4 { return V::Reject("len"); }
    if !rx!(r"^[A-Z0-9]{4}$").is_match(c) { return V::Reject("charset"); }
    const DOC: [&str; 6] = ["CRED", "CRTS", "SPAY", "SPRI", "SSTD", "URGP"];
    if DOC.contains(&c) { acc(vec![("instruction_code", s(c))]) } else { V::Unspec("code-not-in-documented-list") }
}
fn rec_23e(c: &str) -> V {
    if !all_ascii(c) { return V::Reject("charset=non-ascii"); }
    if c.contains('\n') { return V::Reject("lines=2"); }
    if c.len() < 4 { return V::Reject("too-short"); }
    if !rx!(r"^[A-Z]{4}").is_match(c) { return if rx!(r"^[A-Z0-9]{4}").is_match(c) { V::Unspec("digit-in-code") } else { V::Reject("code") }; }
    if c.len() == 4 { return acc(vec![("instruction_code", s(c))]); }
    if c.as_bytes()[4] != b'/' { return V::Reject("separator"); }
    let info = &c[5..];
    if info.is_empty() { return V::Unspec("empty-info"); }
    if !is_x_line(info) { return V::Reject("charset=non-x"); }
    if info.len() > 35 { return V::Reject("info.len=max+1"); }
    acc(vec![("instruction_code", s(&c[0..4])), ("additional_info", s(info))])
}
fn rec_25(c: &str) -> V {
    if c.is_empty() { return V::Unspec("empty"); }
    if !all_ascii(c) { return V::Reject("charset=non-ascii"); }
    if c.contains('\n') { return V::Reject("lines=2"); }
    if !is_x_line(c) { return V::Reject("charset=non-x"); }
    if c.len() > 35 { return V::Reject("len=max+1"); }
    acc(vec![("authorisation", p(c))])
}
fn rec_25a(c: &str) -> V {
    if !all_ascii(c) { return V::Reject("charset=non-ascii"); }
    if c.contains('\n') { return V::Reject("lines=2"); }
    if !c.starts_with('/') { return V::Reject("no-slash"); }
    let a = &c[1..];
    if a.is_empty() { return V::Reject("account.len=0"); }
    if !is_x_line(a) { return V::Reject("charset=non-x"); }
    if a.len() > 34 { return V::Reject("account.len=max+1"); }
    acc(vec![("account", p(a))])
}
fn rec_25p(c: &str) -> V {
    if !all_ascii(c) { return V::Reject("charset=non-ascii"); }
    let ls = lines_of(c);
    if ls.len() == 1 { return V::Unspec("single-line-form"); }
    if ls.len() > 2 { return V::Reject("lines=3"); }
    if ls[0].is_empty() { return V::Unspec("empty-account"); }
    if !is_x_line(ls[0]) { return V::Reject("charset=non-x"); }
    if ls[0].len() > 35 { return V::Reject("account.len=max+1"); }
    match bic(ls[1]) { Bic::Bad => V::Reject("bic"), Bic::Unspec => V::Unspec("bic.lower-case"), Bic::Ok => acc(vec![("account", p(ls[0])), ("bic", s(ls[1]))]) }
}
fn rec_26t(c: &str) -> V {
    if rx!(r"^[A-Z0-9]{3}$").is_match(c) { acc(vec![("type_code", s(c))]) } else if rx!(r"^[A-Za-z0-9]{3}$").is_match(c) { V::Unspec("lower-case") } else { V::Reject("shape") }
}
fn rec_28_generic(c: &str, seqmax: usize, seq_mandatory: bool, k1: &'static str, k2: &'static str) -> V {
    if !all_ascii(c) { return V::Reject("charset=non-ascii"); }
    let pat = format!(r"^([0-9]{{1,5}})(?:/([0-9]{{1,{seqmax}}}))?$");
    let r = Regex::new(&pat).unwrap();
    let Some(m) = r.captures(c) else { return V::Reject("shape"); };
    let a: u64 = m[1].parse().unwrap();
    let mut v = vec![(k1, CV::N(a))];
    match m.get(2) {
        Some(x) => v.push((k2, CV::N(x.as_str().parse().unwrap()))),
        None => if seq_mandatory { return V::Reject("total-missing"); },
    }
    acc(v)
}
fn rec_28(c: &str) -> V { rec_28_generic(c, 2, false, "statement_number", "sequence_number") }
fn rec_28c(c: &str) -> V { rec_28_generic(c, 5, false, "statement_number", "sequence_number") }
fn rec_28d(c: &str) -> V {
    match rec_28_generic(c, 5, true, "index", "total") {
        V::Accept(v) => {
            let (CV::N(i), CV::N(t)) = (&v[0].1, &v[1].1) else { unreachable!() };
            if i > t { return V::Reject("index>total"); }
            if *i == 0 || *t == 0 { return V::Unspec("zero"); }
            V::Accept(v)
        }
        o => o,
    }
}
fn rec_30(c: &str) -> V {
    if !all_ascii(c) { return V::Reject("charset=non-ascii"); }
    if c.len() != 6 { return V::Reject("len"); }
    match date6(c) { Some((y, m, d)) => acc(vec![("execution_date", CV::Date(y, m, d))]), None => V::Reject("date.invalid") }
}
fn rec_32dca(c: &str) -> V {
    // 6!n3!a15d
    if !all_ascii(c) { return V::Reject("charset=non-ascii"); }
    if c.len() < 10 { return V::Reject("too-short"); }
    let Some((y, m, d)) = date6(&c[0..6]) else { return V::Reject("date.invalid"); };
    match ccy_amount(&c[6..], true, true) {
        Ok(mut v) => { v.insert(0, ("value_date", CV::Date(y, m, d))); acc(v) }
        Err(e) => e,
    }
}
fn rec_ccyamt(c: &str) -> V { match ccy_amount(c, true, true) { Ok(v) => acc(v), Err(e) => e } }
fn rec_34f(c: &str) -> V {
    // 3!a[1!a]15d, indicator D or C
    if !all_ascii(c) { return V::Reject("charset=non-ascii"); }
    if c.len() < 4 { return V::Reject("too-short"); }
    let b = c.as_bytes()[3];
    if b == b'D' || b == b'C' {
        let joined = format!("{}{}", &c[0..3], &c[4..]);
        match ccy_amount(&joined, false, true) {
            Ok(mut v) => { v.insert(1, ("indicator", s(&c[3..4]))); acc(v) }
            Err(e) => e,
        }
    } else if b.is_ascii_alphabetic() {
        V::Reject("indicator")
    } else {
        match ccy_amount(c, false, true) { Ok(v) => acc(v), Err(e) => e }
    }
}
fn rec_36(c: &str) -> V {
    match amount(c, 12) {
        Amt::Ok(v, _) => {
            let f: f64 = v.parse().unwrap_or(0.0);
            if v == "0" { return V::Reject("rate.zero"); }
            if !(0.0001..=100000.0).contains(&f) { return V::Unspec("rate.out-of-documented-range"); }
            acc(vec![("rate", CV::D(v))])
        }
        Amt::NoSep(_) => V::Unspec("amount.no-separator"),
        Amt::Dot => V::Unspec("amount.dot"),
        Amt::Bad(w) => V::Reject(w),
    }
}
fn rec_37h(c: &str) -> V {
    if !all_ascii(c) { return V::Reject("charset=non-ascii"); }
    if c.is_empty() { return V::Reject("empty"); }
    let ind = &c[0..1];
    if ind != "C" && ind != "D" { return V::Reject("indicator"); }
    let mut rest = &c[1..];
    let mut v = vec![("rate_indicator", s(ind))];
    if rest.starts_with('N') { rest = &rest[1..]; v.push(("is_negative", CV::Flag)); }
    match amount(rest, 12) {
        Amt::Ok(x, _) => { v.push(("rate", CV::D(x))); acc(v) }
        Amt::NoSep(_) => V::Unspec("amount.no-separator"),
        Amt::Dot => V::Unspec("amount.dot"),
        Amt::Bad(w) => V::Reject(w),
    }
}

fn name_lines(ls: &[&str], max: usize, width: usize) -> Result<Vec<(&'static str, CV)>, V> {
    if ls.is_empty() { return Err(V::Reject("name.lines=0")); }
    if ls.iter().any(|l| !is_x_line(l)) { return Err(V::Reject("charset=non-x")); }
    if ls.iter().any(|l| l.len() > width) { return Err(V::Reject("name.line.len=max+1")); }
    if ls.iter().any(|l| l.is_empty()) { return Err(V::Unspec("empty-line")); }
    if ls.len() > max { return Err(V::Reject("name.lines=max+1")); }
    Ok(ls.iter().map(|l| ("name_and_address", s(l))).collect())
}

/// [/34x] 4*35x  (50K, 59, 50H with mandatory account)
fn rec_acct_name(c: &str, acct_mandatory: bool, key: &'static str) -> V {
    if c.is_empty() { return V::Reject("empty"); }
    if !all_ascii(c) { return V::Reject("charset=non-ascii"); }
    let ls = lines_of(c);
    let mut v = vec![];
    let mut i = 0;
    if ls[0].starts_with('/') {
        let a = &ls[0][1..];
        if !is_x_line(a) { return V::Reject("charset=non-x"); }
        if a.len() > 34 { return V::Reject("account.len=max+1"); }
        if a.is_empty() { return V::Unspec("account.len=0"); }
        v.push((key, p(a)));
        i = 1;
    } else if acct_mandatory { return V::Reject("account.missing"); }
    match name_lines(&ls[i..], 4, 35) { Ok(mut n) => { v.append(&mut n); acc(v) } Err(e) => e }
}
fn rec_50(c: &str) -> V {
    if c.is_empty() { return V::Reject("empty"); }
    if !all_ascii(c) { return V::Reject("charset=non-ascii"); }
    let ls = lines_of(c);
    if ls[0].starts_with('/') { return V::Unspec("leading-slash"); }
    match name_lines(&ls, 4, 35) { Ok(n) => acc(n), Err(e) => e }
}
fn rec_50k(c: &str) -> V { rec_acct_name(c, false, "account") }
fn rec_59(c: &str) -> V { rec_acct_name(c, false, "account") }
fn rec_50h(c: &str) -> V { rec_acct_name(c, true, "account") }
/// [/34x] 4*(1!n/33x)   (50A as documented by the crate, 59F)
fn rec_numbered(c: &str) -> V {
    if c.is_empty() { return V::Reject("empty"); }
    if !all_ascii(c) { return V::Reject("charset=non-ascii"); }
    let ls = lines_of(c);
    let mut v = vec![];
    let mut i = 0;
    if ls[0].starts_with('/') {
        let a = &ls[0][1..];
        if !is_x_line(a) { return V::Reject("charset=non-x"); }
        if a.len() > 34 { return V::Reject("party.len=max+1"); }
        if a.is_empty() { return V::Unspec("party.len=0"); }
        v.push(("party_identifier", p(a)));
        i = 1;
    }
    let rest = &ls[i..];
    if rest.is_empty() { return V::Reject("name.lines=0"); }
    if rest.len() > 4 { return V::Reject("name.lines=max+1"); }
    for (k, l) in rest.iter().enumerate() {
        let Some(m) = rx!(r"^([0-9])/(.*)$").captures(l) else { return V::Reject("line-not-numbered"); };
        let t = &m[2];
        if !is_x_line(t) { return V::Reject("charset=non-x"); }
        if t.len() > 33 { return V::Reject("name.line.len=max+1"); }
        if t.is_empty() { return V::Unspec("empty-numbered-line"); }
        // the number written is part of the content; it must survive (compare literal line)
        // numbered lines count 1, 2, 3 … : anything else would have to be re-numbered on output
        let n: usize = m[1].parse().unwrap();
        if n != k + 1 { return V::Reject("line-numbering"); }
        v.push(("name_and_address", CV::NL(l.to_string())));
    }
    acc(v)
}
fn rec_50f(c: &str) -> V {
    // crate-documented 50F: account + [/party_id] + [name/address 1-4] + BIC
    if !all_ascii(c) { return V::Reject("charset=non-ascii"); }
    let ls = lines_of(c);
    if ls.len() < 2 { return V::Reject("lines<2"); }
    let a = ls[0];
    if a.is_empty() { return V::Reject("account.len=0"); }
    if !is_x_line(a) { return V::Reject("charset=non-x"); }
    if a.len() > 35 { return V::Reject("account.len=max+1"); }
    let last = ls[ls.len() - 1];
    match bic(last) { Bic::Bad => return V::Reject("bic"), Bic::Unspec => return V::Unspec("bic.lower-case"), Bic::Ok => {} }
    let mut v = vec![("account", p(a))];
    let mut i = 1;
    if ls.len() > 2 && ls[1].starts_with('/') {
        let pid = &ls[1][1..];
        if !is_x_line(pid) { return V::Reject("charset=non-x"); }
        if pid.len() > 34 { return V::Reject("party.len=max+1"); }
        if pid.is_empty() { return V::Unspec("party.len=0"); }
        v.push(("party_identifier", p(pid)));
        i = 2;
    }
    let mid = &ls[i..ls.len() - 1];
    if !mid.is_empty() {
        match name_lines(mid, 4, 35) { Ok(mut n) => v.append(&mut n), Err(e) => return e }
    }
    v.push(("bic", s(last)));
    acc(v)
}
fn rec_bic_only(c: &str) -> V {
    match bic(c) { Bic::Ok => acc(vec![("bic", s(c))]), Bic::Unspec => V::Unspec("bic.lower-case"), Bic::Bad => V::Reject("bic") }
}
fn rec_50l(c: &str) -> V {
    if c.is_empty() { return V::Reject("len=0"); }
    if !all_ascii(c) { return V::Reject("charset=non-ascii"); }
    if c.contains('\n') { return V::Reject("lines=2"); }
    if !is_x_line(c) { return V::Reject("charset=non-x"); }
    if c.len() > 35 { return V::Reject("len=max+1"); }
    acc(vec![("party_identifier", p(c))])
}
fn rec_50g(c: &str) -> V {
    if !all_ascii(c) { return V::Reject("charset=non-ascii"); }
    let ls = lines_of(c);
    if ls.len() != 2 { return V::Reject("lines!=2"); }
    if !ls[0].starts_with('/') { return V::Reject("account.no-slash"); }
    let a = &ls[0][1..];
    if a.is_empty() { return V::Reject("account.len=0"); }
    if !is_x_line(a) { return V::Reject("charset=non-x"); }
    if a.len() > 34 { return V::Reject("account.len=max+1"); }
    match bic(ls[1]) { Bic::Ok => acc(vec![("account", p(a)), ("bic", s(ls[1]))]), Bic::Unspec => V::Unspec("bic.lower-case"), Bic::Bad => V::Reject("bic") }
}
/// option A of 51-58: [/1!a][/34x] + BIC
fn rec_opt_a(c: &str) -> V {
    if c.is_empty() { return V::Reject("empty"); }
    if !all_ascii(c) { return V::Reject("charset=non-ascii"); }
    let ls = lines_of(c);
    let mut v = vec![];
    let mut i = 0;
    if ls[0].starts_with('/') {
        match party_line(ls[0]) { Some(true) => {} Some(false) => return V::Reject("party.malformed"), None => return V::Unspec("party.form") }
        v.push(("party_identifier", p(ls[0])));
        i = 1;
    }
    if ls.len() == i { return V::Reject("bic.missing"); }
    if ls.len() > i + 1 { return V::Reject("extra-line-after-bic"); }
    match bic(ls[i]) { Bic::Ok => { v.push(("bic", s(ls[i]))); acc(v) } Bic::Unspec => V::Unspec("bic.lower-case"), Bic::Bad => V::Reject("bic") }
}
/// 59A: [/34x] + BIC
fn rec_59a(c: &str) -> V {
    if c.is_empty() { return V::Reject("empty"); }
    if !all_ascii(c) { return V::Reject("charset=non-ascii"); }
    let ls = lines_of(c);
    let mut v = vec![];
    let mut i = 0;
    if ls[0].starts_with('/') {
        let a = &ls[0][1..];
        if !is_x_line(a) { return V::Reject("charset=non-x"); }
        if a.len() > 34 { return V::Reject("account.len=max+1"); }
        if a.is_empty() { return V::Unspec("account.len=0"); }
        v.push(("account", p(a)));
        i = 1;
    }
    if ls.len() == i { return V::Reject("bic.missing"); }
    if ls.len() > i + 1 { return V::Reject("extra-line-after-bic"); }
    match bic(ls[i]) { Bic::Ok => { v.push(("bic", s(ls[i]))); acc(v) } Bic::Unspec => V::Unspec("bic.lower-case"), Bic::Bad => V::Reject("bic") }
}
/// option B: [/1!a][/34x] [35x]
/// 53B as the crate's own shipped scenarios use it: a first line without a leading slash in front of the location
/// (e.g. "NOSTRO-USD-001\nNEW YORK") is treated as a party identifier -- outside the documented [/1!a][/34x] form,
/// but deliberately supported: Unspecified.
fn rec_53b(c: &str) -> V {
    let ls = lines_of(c);
    if all_ascii(c) && ls.len() == 2 && !ls[0].is_empty() && !ls[0].starts_with('/') && is_x_line(ls[0]) && ls[0].len() <= 34 { return V::Unspec("party-without-slash"); }
    rec_opt_b(c)
}
fn rec_opt_b(c: &str) -> V {
    if c.is_empty() { return V::Unspec("empty"); }
    if !all_ascii(c) { return V::Reject("charset=non-ascii"); }
    let ls = lines_of(c);
    let mut v = vec![];
    let mut i = 0;
    if ls[0].starts_with('/') {
        match party_line(ls[0]) { Some(true) => {} Some(false) => return V::Reject("party.malformed"), None => return V::Unspec("party.form") }
        v.push(("party_identifier", p(ls[0])));
        i = 1;
    }
    if ls.len() > i + 1 { return V::Reject("lines=max+1"); }
    if ls.len() == i + 1 {
        let l = ls[i];
        if l.is_empty() { return V::Unspec("empty-line"); }
        if !is_x_line(l) { return V::Reject("charset=non-x"); }
        if l.len() > 35 { return V::Reject("location.len=max+1"); }
        v.push(("location", s(l)));
    }
    acc(v)
}
/// option C: /34x
fn rec_opt_c(c: &str) -> V {
    if !all_ascii(c) { return V::Reject("charset=non-ascii"); }
    if c.contains('\n') { return V::Reject("lines=2"); }
    if !c.starts_with('/') { return V::Reject("no-slash"); }
    let a = &c[1..];
    if a.is_empty() { return V::Reject("party.len=0"); }
    if !is_x_line(a) { return V::Reject("charset=non-x"); }
    if a.len() > 34 { return V::Reject("party.len=max+1"); }
    acc(vec![("party_identifier", p(a))])
}
/// option D: [/1!a][/34x] 4*35x
fn rec_opt_d(c: &str) -> V {
    if c.is_empty() { return V::Reject("empty"); }
    if !all_ascii(c) { return V::Reject("charset=non-ascii"); }
    let ls = lines_of(c);
    let mut v = vec![];
    let mut i = 0;
    if ls[0].starts_with('/') {
        match party_line(ls[0]) { Some(true) => {} Some(false) => return V::Reject("party.malformed"), None => return V::Unspec("party.form") }
        v.push(("party_identifier", p(ls[0])));
        i = 1;
    }
    match name_lines(&ls[i..], 4, 35) { Ok(mut n) => { v.append(&mut n); acc(v) } Err(e) => e }
}
fn rec_balance(c: &str) -> V {
    // 1!a6!n3!a15d
    if !all_ascii(c) { return V::Reject("charset=non-ascii"); }
    if c.len() < 11 { return V::Reject("too-short"); }
    let dc = &c[0..1];
    if dc != "D" && dc != "C" { return V::Reject("dc-mark"); }
    let Some((y, m, d)) = date6(&c[1..7]) else { return V::Reject("date.invalid"); };
    match ccy_amount(&c[7..], false, true) {
        Ok(mut v) => { v.insert(0, ("value_date", CV::Date(y, m, d))); v.insert(0, ("debit_credit_mark", s(dc)));
            // zero balances are ordinary
            acc(v) }
        Err(V::Unspec("amount.zero")) => {
            let (cur, _) = c[7..].split_at(3);
            acc(vec![("debit_credit_mark", s(dc)), ("value_date", CV::Date(y, m, d)), ("currency", s(cur)), ("amount", CV::D("0".into()))])
        }
        Err(e) => e,
    }
}
fn rec_61(c: &str) -> V {
    // 6!n[4!n]2a[1!a]15d1!a3!c[16x][//16x][34x]
    if !all_ascii(c) { return V::Reject("charset=non-ascii"); }
    let ls = lines_of(c);
    if ls.len() > 2 { return V::Reject("lines=3"); }
    let Some(m) = rx!(r"^([0-9]{6})([0-9]{4})?(RD|RC|D|C)([A-Z])?([0-9,.]{1,15})([A-Z][A-Z0-9]{3})(.*)$").captures(ls[0]) else { return V::Reject("shape"); };
    let Some((y, mo, d)) = date6(&m[1]) else { return V::Reject("date.invalid"); };
    let mut v = vec![("value_date", CV::Date(y, mo, d))];
    if let Some(e) = m.get(2) {
        let e = e.as_str();
        let mm: u32 = e[0..2].parse().unwrap(); let dd: u32 = e[2..4].parse().unwrap();
        if !valid_ymd(2024, mm, dd) { return V::Reject("entry-date.invalid"); }
        v.push(("entry_date", s(e)));
    }
    v.push(("debit_credit_mark", s(&m[3])));
    if let Some(f) = m.get(4) { v.push(("funds_code", s(f.as_str()))); }
    match amount(&m[5], 15) { Amt::Ok(x, _) => v.push(("amount", CV::D(x))), Amt::NoSep(_) => return V::Unspec("amount.no-separator"), Amt::Dot => return V::Unspec("amount.dot"), Amt::Bad(w) => return V::Reject(w) }
    v.push(("transaction_type", s(&m[6])));
    let rest = &m[7];
    if !is_x_line(rest) { return V::Reject("charset=non-x"); }
    let (cust, bank) = match rest.find("//") { Some(i) => (&rest[..i], Some(&rest[i + 2..])), None => (rest, None) };
    if cust.is_empty() { return V::Unspec("customer-reference.len=0"); }
    // the doc format string writes [16x][//16x][34x] without a line break, the struct separates the
    // supplementary details by a line break: an over-long reference on the first line is ambiguous
    if cust.len() > 16 { return V::Unspec("customer-reference.len>16"); }
    v.push(("customer_reference", s(cust)));
    if let Some(b) = bank {
        if b.is_empty() { return V::Unspec("bank-reference.len=0"); }
        if b.len() > 16 { return V::Unspec("bank-reference.len>16"); }
        if b.contains("//") { return V::Unspec("bank-reference.double-slash"); }
        v.push(("bank_reference", s(b)));
    }
    if ls.len() == 2 {
        let sd = ls[1];
        if sd.is_empty() { return V::Unspec("empty-line"); }
        if !is_x_line(sd) { return V::Reject("charset=non-x"); }
        if sd.len() > 34 { return V::Reject("supplementary.len=max+1"); }
        v.push(("supplementary_details", s(sd)));
    }
    acc(v)
}
fn rec_70(c: &str) -> V { text_block(c, 4, 35, "narrative") }
fn rec_71a(c: &str) -> V {
    if ["BEN", "OUR", "SHA"].contains(&c) { acc(vec![("code", s(c))]) } else { V::Reject("code") }
}
fn rec_71b(c: &str) -> V { text_block(c, 6, 35, "details") }
fn rec_72(c: &str) -> V { text_block(c, 6, 35, "information") }
fn rec_75(c: &str) -> V { text_block(c, 6, 35, "information") }
fn rec_76(c: &str) -> V { text_block(c, 6, 35, "information") }
fn rec_77a(c: &str) -> V { text_block(c, 20, 35, "narrative") }
fn rec_77b(c: &str) -> V { text_block(c, 3, 35, "narrative") }
fn rec_77t(c: &str) -> V {
    if c.is_empty() { return V::Reject("len=0"); }
    if c.chars().count() > 9000 { return V::Reject("len=max+1"); }
    if !all_ascii(c) { return V::Unspec("z-charset-non-ascii"); }
    acc(vec![("envelope_content", s(c))])
}
fn rec_79(c: &str) -> V { text_block(c, 35, 50, "information") }
fn rec_86(c: &str) -> V { text_block(c, 6, 65, "narrative") }
fn rec_90(c: &str) -> V {
    // 5n3!a15d
    if !all_ascii(c) { return V::Reject("charset=non-ascii"); }
    let Some(m) = rx!(r"^([0-9]{1,5})([^0-9].*)$").captures(c) else { return V::Reject("shape"); };
    let n: u64 = m[1].parse().unwrap();
    match ccy_amount(&m[2], false, true) {
        Ok(mut v) => { v.insert(0, ("number", CV::N(n))); acc(v) }
        Err(V::Unspec("amount.zero")) => { let (cur, _) = m[2].split_at(3); acc(vec![("number", CV::N(n)), ("currency", s(cur)), ("amount", CV::D("0".into()))]) }
        Err(e) => e,
    }
}

// ---------------------------------------------------------------- instances (canonical spelling)

fn xs(n: usize) -> String { "ABCDEFGHIJKLMNOPQRSTUVWXYZ0123456789ABCDEFGHIJKLMNOPQRSTUVWXYZ0123456789".chars().cycle().take(n).collect() }
fn i(class: &'static str, t: impl Into<String>) -> (&'static str, String) { (class, t.into()) }

fn in_11x() -> Vec<(&'static str, String)> { vec![i("typ", "103240719"), i("max", "1032407191234567890"), i("opt", "2022402291234"), i("y50", "103500101"), i("y68", "103681231")] }
fn in_11() -> Vec<(&'static str, String)> { vec![i("typ", "196240719"), i("min", "103000101"), i("y50", "103500101"), i("y69", "103690101")] }
fn in_12() -> Vec<(&'static str, String)> { vec![i("typ", "940"), i("alt", "942")] }
fn in_13c() -> Vec<(&'static str, String)> { vec![i("typ", "/SNDTIME/1230+0100"), i("min", "/CLSTIME/0000-0000"), i("max", "/RNCTIME/2359+1459")] }
fn in_13d() -> Vec<(&'static str, String)> { vec![i("typ", "2407191230+0100"), i("min", "0001010000-0000"), i("max", "4912312359+1459"), i("old", "9912311200+0530"), i("y50", "5001010000+0000"), i("y68", "6812312359-1200"), i("y69", "6901010000+0000")] }
fn in_19() -> Vec<(&'static str, String)> { vec![i("typ", "123456,78"), i("min", "0,01"), i("max", "99999999999999,99")] }
fn in_ref16() -> Vec<(&'static str, String)> { vec![i("typ", "REF20240719001"), i("min", "A"), i("max", xs(16)), i("punct", "A/B-C?:().,'+ D")] }
fn in_ref35() -> Vec<(&'static str, String)> { vec![i("typ", "CUSTREF-2024-0719"), i("min", "A"), i("max", xs(35))] }
fn in_23() -> Vec<(&'static str, String)> { vec![i("typ", "BASREFERENCE"), i("days", "NOT15REF123"), i("min", "CALX"), i("max", format!("PRI{}", xs(11)))] }
fn in_23b() -> Vec<(&'static str, String)> { vec![i("typ", "CRED"), i("alt", "SPRI")] }
fn in_23e() -> Vec<(&'static str, String)> { vec![i("typ", "HOLD"), i("info", "PHOB/CALL BEFORE PAYING"), i("max", format!("TELB/{}", xs(35)))] }
fn in_25() -> Vec<(&'static str, String)> { vec![i("typ", "/AUTH123456789"), i("min", "/A"), i("max", format!("/{}", xs(34))), i("bic-like-tail", "/CURRENTACCOUNT01"), i("bic-like-tail11", "/NOSTRO/COBADEFFXXX")] }
fn in_25a() -> Vec<(&'static str, String)> { vec![i("typ", "/GB82WEST12345698765432"), i("min", "/A"), i("max", format!("/{}", xs(34)))] }
fn in_25p() -> Vec<(&'static str, String)> { vec![i("typ", "GB82WEST12345698765432\nDEUTDEFF"), i("max", format!("{}\nDEUTDEFF500", xs(35)))] }
fn in_26t() -> Vec<(&'static str, String)> { vec![i("typ", "K90"), i("alt", "PAY")] }
fn in_28() -> Vec<(&'static str, String)> { vec![i("typ", "12345/01"), i("min", "1"), i("max", "99999/99")] }
fn in_28c() -> Vec<(&'static str, String)> { vec![i("typ", "12345/123"), i("min", "1"), i("max", "99999/99999")] }
fn in_28d() -> Vec<(&'static str, String)> { vec![i("typ", "001/010"), i("min", "001/001"), i("max", "99999/99999")] }
fn in_30() -> Vec<(&'static str, String)> { vec![i("typ", "240719"), i("leap", "240229"), i("min", "000101"), i("max", "491231"), i("old", "991231"), i("pivot", "500101")] }
fn in_32dca() -> Vec<(&'static str, String)> { vec![i("typ", "240719USD1000,50"), i("min", "000101EUR0,01"), i("max", "491231GBP9999999999,99"), i("jpy", "240719JPY1500000"), i("bhd", "240719BHD123,456"), i("clf", "991231CLF10,1234"), i("y50", "500101USD1,00"), i("y68", "681231USD1,00")] }
fn in_ccyamt() -> Vec<(&'static str, String)> { vec![i("typ", "EUR500,00"), i("min", "USD0,01"), i("max", "GBP9999999999,99"), i("jpy", "JPY125000"), i("kwd", "KWD1,500")] }
fn in_34f() -> Vec<(&'static str, String)> { vec![i("typ", "USD5000,00"), i("ind-d", "USDD2500,00"), i("ind-c", "EURC0,01"), i("max", "GBP999999999999,99")] }
fn in_36() -> Vec<(&'static str, String)> { vec![i("typ", "1,25"), i("min", "0,0001"), i("max", "99999,99999"), i("alt", "0,9375")] }
fn in_37h() -> Vec<(&'static str, String)> { vec![i("typ", "C2,5000"), i("neg", "DN0,2500"), i("max", "C9999999,9999"), i("min", "D0,0001"), i("neg-zero", "CN0,0000")] }
fn in_50() -> Vec<(&'static str, String)> { vec![i("typ", "ACME CORPORATION\n12 MAIN STREET"), i("min", "A"), i("max", format!("{}\n{}\n{}\n{}", xs(35), xs(35), xs(35), xs(35)))] }
fn in_50a() -> Vec<(&'static str, String)> { vec![i("typ", "/12345678\n1/ACME CORPORATION\n2/12 MAIN STREET"), i("min", "1/A"), i("max", format!("/{}\n1/{}\n2/{}\n3/{}\n4/{}", xs(34), xs(33), xs(33), xs(33), xs(33)))] }
fn in_50f() -> Vec<(&'static str, String)> { vec![i("typ", "12345678\nDEUTDEFF"), i("full", "12345678\n/PARTY01\nACME CORPORATION\n12 MAIN STREET\nDEUTDEFFXXX"), i("max", format!("{}\n/{}\n{}\n{}\n{}\n{}\nDEUTDEFF500", xs(35), xs(34), xs(35), xs(35), xs(35), xs(35)))] }
fn in_50k() -> Vec<(&'static str, String)> { vec![i("typ", "/12345678\nJOHN DOE\n123 MAIN ST"), i("noacct", "JOHN DOE"), i("min", "A"), i("max", format!("/{}\n{}\n{}\n{}\n{}", xs(34), xs(35), xs(35), xs(35), xs(35)))] }
fn in_bic() -> Vec<(&'static str, String)> { vec![i("typ", "DEUTDEFF"), i("max", "DEUTDEFF500")] }
fn in_50l() -> Vec<(&'static str, String)> { vec![i("typ", "PARTY-IDENTIFIER 01"), i("min", "A"), i("max", xs(35))] }
fn in_50g() -> Vec<(&'static str, String)> { vec![i("typ", "/12345678\nDEUTDEFF"), i("min", "/A\nDEUTDEFF"), i("max", format!("/{}\nDEUTDEFF500", xs(34)))] }
fn in_50h() -> Vec<(&'static str, String)> { vec![i("typ", "/12345678\nJOHN DOE\n123 MAIN ST"), i("min", "/A\nB"), i("max", format!("/{}\n{}\n{}\n{}\n{}", xs(34), xs(35), xs(35), xs(35), xs(35)))] }
fn in_opt_a() -> Vec<(&'static str, String)> { vec![i("typ", "DEUTDEFF"), i("party", "/C/12345678\nCHASUS33XXX"), i("acct", "/12345678\nDEUTDEFF"), i("max", format!("/D/{}\nDEUTDEFF500", xs(34)))] }
fn in_opt_b() -> Vec<(&'static str, String)> { vec![i("typ", "/12345678\nFRANKFURT"), i("party-only", "/C/12345678"), i("loc-only", "NEW YORK BRANCH"), i("max", format!("/D/{}\n{}", xs(34), xs(35)))] }
fn in_opt_c() -> Vec<(&'static str, String)> { vec![i("typ", "/12345678"), i("min", "/A"), i("max", format!("/{}", xs(34)))] }
fn in_opt_d() -> Vec<(&'static str, String)> { vec![i("typ", "/12345678\nBANK OF EXAMPLES\nEXAMPLE CITY"), i("noparty", "BANK OF EXAMPLES\nEXAMPLE CITY"), i("min", "B"), i("max", format!("/D/{}\n{}\n{}\n{}\n{}", xs(34), xs(35), xs(35), xs(35), xs(35)))] }
fn in_59() -> Vec<(&'static str, String)> { vec![i("typ", "/GB82WEST12345698765432\nJOHN SMITH\n456 RESIDENTIAL AVENUE"), i("noacct", "JOHN SMITH"), i("min", "A"), i("max", format!("/{}\n{}\n{}\n{}\n{}", xs(34), xs(35), xs(35), xs(35), xs(35)))] }
fn in_59a() -> Vec<(&'static str, String)> { vec![i("typ", "/GB82WEST12345698765432\nDEUTDEFF"), i("noacct", "CHASUS33XXX"), i("max", format!("/{}\nDEUTDEFF500", xs(34)))] }
fn in_59f() -> Vec<(&'static str, String)> { vec![i("typ", "1/JOHN SMITH\n2/456 RESIDENTIAL AVENUE\n3/GB/LONDON"), i("party", "/12345678\n1/JOHN SMITH"), i("min", "1/A"), i("max", format!("/{}\n1/{}\n2/{}\n3/{}\n4/{}", xs(34), xs(33), xs(33), xs(33), xs(33)))] }
fn in_balance() -> Vec<(&'static str, String)> { vec![i("typ", "C231225USD1234,56"), i("debit", "D240229EUR0,00"), i("max", "C491231GBP999999999999,99"), i("old", "D991231CHF10,50"), i("y50", "C500101USD1,00"), i("y68", "C681231USD1,00")] }
fn in_61() -> Vec<(&'static str, String)> { vec![
    i("typ", "231225D1234,56NTRFREF123456"),
    i("entry", "2312251226C100,00NMSCCUSTREF//BANKREF"),
    i("full", "2312251226RDR99,99FCHKCUSTREF//BANKREF123\nSUPPLEMENTARY DETAILS"),
    i("min", "000101C0,01NMSCA"),
    i("leap-entry", "2312290229C250,00NTRFREF//BANKREF"),
    i("max", format!("4912311231RCZ999999999999,99S999{}//{}\n{}", xs(16), xs(16), xs(34))),
] }
fn in_70() -> Vec<(&'static str, String)> { vec![i("typ", "/INV/20231215/INV-12345\nPAYMENT FOR SERVICES"), i("min", "A"), i("max", format!("{}\n{}\n{}\n{}", xs(35), xs(35), xs(35), xs(35)))] }
fn in_71a() -> Vec<(&'static str, String)> { vec![i("sha", "SHA"), i("our", "OUR"), i("ben", "BEN")] }
fn in_txt(n: usize, w: usize) -> Vec<(&'static str, String)> {
    vec![i("typ", "LINE ONE OF TEXT\nLINE TWO OF TEXT"), i("min", "A"), i("max", (0..n).map(|_| xs(w)).collect::<Vec<_>>().join("\n")), i("colon-dash", "A: B - C\nX:Y:Z")]
}
fn in_71b() -> Vec<(&'static str, String)> { in_txt(6, 35) }
fn in_72() -> Vec<(&'static str, String)> { let mut v = in_txt(6, 35); v.push(i("codes", "/BNF/BENEFICIARY DETAILS\n//CONTINUED\n/INS/CHASUS33")); v }
fn in_75() -> Vec<(&'static str, String)> { in_txt(6, 35) }
fn in_76() -> Vec<(&'static str, String)> { in_txt(6, 35) }
fn in_77a() -> Vec<(&'static str, String)> { in_txt(20, 35) }
fn in_77b() -> Vec<(&'static str, String)> { in_txt(3, 35) }
fn in_77t() -> Vec<(&'static str, String)> { vec![i("typ", "/UEDI/UNH+123+INVOIC:D:96A:UN"), i("min", "A"), i("long", xs(900))] }
fn in_79() -> Vec<(&'static str, String)> { let mut v = in_txt(35, 50); v.push(i("code", "/DUPL/DUPLICATE PAYMENT\nSECOND LINE")); v }
fn in_86() -> Vec<(&'static str, String)> { in_txt(6, 65) }
fn in_90() -> Vec<(&'static str, String)> { vec![i("typ", "5USD12500,50"), i("min", "0EUR0,00"), i("max", "99999GBP999999999999,99")] }

macro_rules! k { ($tag:expr, $ty:expr, $rec:expr, $ins:expr) => { Kind { tag: $tag, ty: $ty, rec: $rec, insts: $ins } }; }

pub fn kinds() -> &'static Vec<Kind> {
    static K: OnceLock<Vec<Kind>> = OnceLock::new();
    K.get_or_init(|| vec![
        k!("11", "Field11", rec_11, in_11), k!("11R", "Field11R", rec_11x, in_11x), k!("11S", "Field11S", rec_11x, in_11x),
        k!("12", "Field12", rec_12, in_12), k!("13C", "Field13C", rec_13c, in_13c), k!("13D", "Field13D", rec_13d, in_13d),
        k!("19", "Field19", rec_19, in_19), k!("20", "Field20", rec_20, in_ref16), k!("21", "Field21NoOption", rec_21, in_ref16),
        k!("21C", "Field21C", rec_ref35, in_ref35), k!("21D", "Field21D", rec_ref35, in_ref35), k!("21E", "Field21E", rec_ref35, in_ref35),
        k!("21F", "Field21F", rec_ref16, in_ref16), k!("21R", "Field21R", rec_ref16, in_ref16),
        k!("23", "Field23", rec_23, in_23), k!("23B", "Field23B", rec_23b, in_23b), k!("23E", "Field23E", rec_23e, in_23e),
        k!("25", "Field25NoOption", rec_25, in_25), k!("25A", "Field25A", rec_25a, in_25a), k!("25P", "Field25P", rec_25p, in_25p),
        k!("26T", "Field26T", rec_26t, in_26t), k!("28", "Field28", rec_28, in_28), k!("28C", "Field28C", rec_28c, in_28c), k!("28D", "Field28D", rec_28d, in_28d),
        k!("30", "Field30", rec_30, in_30),
        k!("32A", "Field32A", rec_32dca, in_32dca), k!("32B", "Field32B", rec_ccyamt, in_ccyamt), k!("32C", "Field32C", rec_32dca, in_32dca), k!("32D", "Field32D", rec_32dca, in_32dca),
        k!("33B", "Field33B", rec_ccyamt, in_ccyamt), k!("34F", "Field34F", rec_34f, in_34f), k!("36", "Field36", rec_36, in_36), k!("37H", "Field37H", rec_37h, in_37h),
        k!("50", "Field50NoOption", rec_50, in_50), k!("50A", "Field50A", rec_numbered, in_50a), k!("50F", "Field50F", rec_50f, in_50f), k!("50K", "Field50K", rec_50k, in_50k),
        k!("50C", "Field50C", rec_bic_only, in_bic), k!("50L", "Field50L", rec_50l, in_50l), k!("50G", "Field50G", rec_50g, in_50g), k!("50H", "Field50H", rec_50h, in_50h),
        k!("51A", "Field51A", rec_opt_a, in_opt_a),
        k!("52A", "Field52A", rec_opt_a, in_opt_a), k!("52B", "Field52B", rec_opt_b, in_opt_b), k!("52C", "Field52C", rec_opt_c, in_opt_c), k!("52D", "Field52D", rec_opt_d, in_opt_d),
        k!("53A", "Field53A", rec_opt_a, in_opt_a), k!("53B", "Field53B", rec_53b, in_opt_b), k!("53D", "Field53D", rec_opt_d, in_opt_d),
        k!("54A", "Field54A", rec_opt_a, in_opt_a), k!("54B", "Field54B", rec_opt_b, in_opt_b), k!("54D", "Field54D", rec_opt_d, in_opt_d),
        k!("55A", "Field55A", rec_opt_a, in_opt_a), k!("55B", "Field55B", rec_opt_b, in_opt_b), k!("55D", "Field55D", rec_opt_d, in_opt_d),
        k!("56A", "Field56A", rec_opt_a, in_opt_a), k!("56C", "Field56C", rec_opt_c, in_opt_c), k!("56D", "Field56D", rec_opt_d, in_opt_d),
        k!("57A", "Field57A", rec_opt_a, in_opt_a), k!("57B", "Field57B", rec_opt_b, in_opt_b), k!("57C", "Field57C", rec_opt_c, in_opt_c), k!("57D", "Field57D", rec_opt_d, in_opt_d),
        k!("58A", "Field58A", rec_opt_a, in_opt_a), k!("58D", "Field58D", rec_opt_d, in_opt_d),
        k!("59", "Field59NoOption", rec_59, in_59), k!("59A", "Field59A", rec_59a, in_59a), k!("59F", "Field59F", rec_numbered, in_59f),
        k!("60F", "Field60F", rec_balance, in_balance), k!("60M", "Field60M", rec_balance, in_balance), k!("61", "Field61", rec_61, in_61),
        k!("62F", "Field62F", rec_balance, in_balance), k!("62M", "Field62M", rec_balance, in_balance), k!("64", "Field64", rec_balance, in_balance), k!("65", "Field65", rec_balance, in_balance),
        k!("70", "Field70", rec_70, in_70), k!("71A", "Field71A", rec_71a, in_71a), k!("71B", "Field71B", rec_71b, in_71b),
        k!("71F", "Field71F", rec_ccyamt, in_ccyamt), k!("71G", "Field71G", rec_ccyamt, in_ccyamt), k!("72", "Field72", rec_72, in_72),
        k!("75", "Field75", rec_75, in_75), k!("76", "Field76", rec_76, in_76), k!("77A", "Field77A", rec_77a, in_77a), k!("77B", "Field77B", rec_77b, in_77b), k!("77T", "Field77T", rec_77t, in_77t),
        k!("79", "Field79", rec_79, in_79), k!("86", "Field86", rec_86, in_86), k!("90C", "Field90C", rec_90, in_90), k!("90D", "Field90D", rec_90, in_90),
    ])
}

pub fn kind(tag: &str) -> Option<&'static Kind> {
    static IDX: OnceLock<HashMap<&'static str, usize>> = OnceLock::new();
    let idx = IDX.get_or_init(|| kinds().iter().enumerate().map(|(i, k)| (k.tag, i)).collect());
    idx.get(tag).map(|i| &kinds()[*i])
}

/// Components of a canonical instance. Instances with no decimal separator (0-decimal
/// currencies, as the crate's own examples write them) are read leniently.
pub fn components(tag: &str, text: &str) -> Option<Vec<(&'static str, CV)>> {
    let k = kind(tag)?;
    match (k.rec)(text) {
        V::Accept(v) => Some(v),
        V::Unspec("amount.no-separator") => {
            // insert a separator at the end of the digits to read the value
            let with = if let Some(nl) = text.find('\n') { format!("{},{}", &text[..nl], &text[nl..]) } else { format!("{text},") };
            match (k.rec)(&with) { V::Accept(v) => Some(v), _ => None }
        }
        _ => None,
    }
}

/// Machinery self-check: every instance must be accepted (or leniently readable) by its recogniser.
pub fn self_check() -> Result<usize, String> {
    let mut n = 0;
    for k in kinds() {
        for (class, t) in (k.insts)() {
            if components(k.tag, &t).is_none() {
                return Err(format!("M1 self-check: instance {}[{}] = {:?} is not accepted by its own recogniser: {:?}", k.tag, class, t, (k.rec)(&t)));
            }
            n += 1;
        }
    }
    Ok(n)
}
