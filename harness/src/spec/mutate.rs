//! E-mutate — all single (and optionally pair) structural mutations of a valid token list.
use super::m1;
use super::m2::{self, Msg};
use crate::common::tok::Tok;

#[derive(Clone, Debug, PartialEq)]
pub enum MutKind { InsertUnknown, InsertKnown, Dup, Swap, Delete, Corrupt, AppendUnknown, AppendKnown, OverRepeat, BlankLine, TextAfterDash }

impl MutKind {
    pub fn clause(&self) -> &'static str {
        match self {
            MutKind::InsertUnknown => "dropped-unknown",
            MutKind::InsertKnown => "dropped-misplaced",
            MutKind::Dup => "dropped-duplicate",
            MutKind::Swap => "dropped-misplaced",
            MutKind::Delete => "deleted",
            MutKind::Corrupt => "dropped-invalid",
            MutKind::AppendUnknown | MutKind::AppendKnown => "dropped-trailing",
            MutKind::OverRepeat => "dropped-over-repeat",
            MutKind::BlankLine => "absorbed-after-blank-line",
            MutKind::TextAfterDash => "dropped-text-after-dash-line",
        }
    }
}

#[derive(Clone, Debug)]
pub struct Mutant {
    pub kind: MutKind,
    pub toks: Vec<Tok>,
    /// index (in `toks`) of the field the mutation put there / touched, if any
    pub at: Option<usize>,
    /// tag of the mutated / inserted field
    pub tag: String,
    pub desc: String,
}

pub fn unknown_tok() -> Tok { Tok { tag: "99Z".into(), content: "JUNK".into() } }

/// the insertion alphabet: one typical instance of every M1 kind + one unknown tag
pub fn alphabet() -> Vec<Tok> {
    let mut v: Vec<Tok> = m1::kinds().iter().map(|k| Tok { tag: k.tag.to_string(), content: (k.insts)()[0].1.clone() }).collect();
    v.push(unknown_tok());
    v
}

/// candidate invalid contents for a kind (the caller keeps those the kind's own parser rejects)
pub fn corrupt_candidates(content: &str) -> Vec<(&'static str, String)> {
    let first_line = content.split('\n').next().unwrap_or("");
    vec![
        ("empty", String::new()),
        ("too-long", format!("{}{}", first_line, "X".repeat(70))),
        ("non-ascii", format!("\u{e9}{}", content)),
        ("bad-lead", format!("?{}", content)),
        ("non-x", format!("~{}", content)),
        ("non-x-inside", { let mut c: Vec<char> = content.chars().collect(); let k = c.len() / 2; c.insert(k, '^'); c.into_iter().collect() }),
    ]
}

/// All single mutations of `base`. `alphabet` = tokens that may be inserted / appended.
pub fn single_mutations(base: &[Tok], alphabet: &[Tok], with_inserts: bool) -> Vec<Mutant> {
    let n = base.len();
    let mut out = vec![];
    for p in 0..n {
        // dup(p): the copy directly after the original
        let mut t = base.to_vec(); t.insert(p + 1, base[p].clone());
        out.push(Mutant { kind: MutKind::Dup, toks: t, at: Some(p + 1), tag: base[p].tag.clone(), desc: format!("dup({p})") });
        // delete(p)
        let mut t = base.to_vec(); t.remove(p);
        out.push(Mutant { kind: MutKind::Delete, toks: t, at: None, tag: base[p].tag.clone(), desc: format!("delete({p})") });
        // swap(p, p+1)
        if p + 1 < n && base[p] != base[p + 1] {
            let mut t = base.to_vec(); t.swap(p, p + 1);
            out.push(Mutant { kind: MutKind::Swap, toks: t, at: Some(p), tag: base[p + 1].tag.clone(), desc: format!("swap({p},{})", p + 1) });
        }
        // blank(p): an empty line between field p-1 and field p (the tokens stay the same)
        if p > 0 {
            let mut t = base.to_vec(); t[p - 1].content.push('\n');
            out.push(Mutant { kind: MutKind::BlankLine, toks: t, at: Some(p), tag: base[p].tag.clone(), desc: format!("blank-line-before({p})") });
        }
        // corrupt(p, k)
        for (name, bad) in corrupt_candidates(&base[p].content) {
            let mut t = base.to_vec(); t[p].content = bad;
            out.push(Mutant { kind: MutKind::Corrupt, toks: t, at: Some(p), tag: base[p].tag.clone(), desc: format!("corrupt({p},{name})") });
        }
    }
    if with_inserts {
        for p in 0..n {
            for f in alphabet {
                let mut t = base.to_vec(); t.insert(p, f.clone());
                let kind = if f.tag == "99Z" { MutKind::InsertUnknown } else { MutKind::InsertKnown };
                out.push(Mutant { kind, toks: t, at: Some(p), tag: f.tag.clone(), desc: format!("insert({p},{})", f.tag) });
            }
        }
    }
    // a line consisting of a hyphen after the last field, followed by text that is not a field
    if n > 0 {
        let mut t = base.to_vec(); t[n - 1].content.push_str("\n-\nTRAILING TEXT 4711");
        out.push(Mutant { kind: MutKind::TextAfterDash, toks: t, at: Some(n - 1), tag: base[n - 1].tag.clone(), desc: "text-after-dash-line".into() });
    }
    for f in alphabet {
        let mut t = base.to_vec(); t.push(f.clone());
        let kind = if f.tag == "99Z" { MutKind::AppendUnknown } else { MutKind::AppendKnown };
        out.push(Mutant { kind, toks: t, at: Some(n), tag: f.tag.clone(), desc: format!("append({})", f.tag) });
    }
    out
}

/// Over-repetition of the repeating sequence: hi+1 occurrences (types with a small documented limit).
pub fn over_repeat(msg: &Msg) -> Option<Mutant> {
    let l = m2::layout(msg.mt);
    let seq = l.nodes.iter().find_map(|n| if let m2::Node::S(s) = n { if s.array && s.hi <= 100 { Some(s) } else { None } } else { None })?;
    let n = msg.seq_count?;
    if n == 0 { return None; }
    // copy the last occurrence until there are hi+1
    let toks = msg.toks();
    let idxs: Vec<usize> = msg.occs.iter().enumerate().filter(|(_, o)| o.cont == m2::Cont::SeqItem(n - 1)).map(|(i, _)| i).collect();
    let (first, last) = (*idxs.first()?, *idxs.last()?);
    let block: Vec<Tok> = toks[first..=last].to_vec();
    let mut t = toks[..=last].to_vec();
    for _ in n..(seq.hi + 1) { t.extend(block.clone()); }
    let at = t.len() - block.len();
    t.extend(toks[last + 1..].to_vec());
    Some(Mutant { kind: MutKind::OverRepeat, toks: t, at: Some(at), tag: block[0].tag.clone(), desc: format!("over-repeat({}->{})", n, seq.hi + 1) })
}
