//! The 25 multi-option field families (enum types) and the M1 kinds of their options.
pub const FAMILIES: [(&str, &str, &[&str]); 25] = [
    ("Field25AccountIdentification", "25", &["25", "25P"]),
    ("Field32", "32", &["32A", "32B", "32C", "32D"]),
    ("Field32AB", "32", &["32A", "32B"]),
    ("Field32AmountCD", "32", &["32C", "32D"]),
    ("Field50InstructingParty", "50", &["50C", "50L"]),
    ("Field50OrderingCustomerFGH", "50", &["50F", "50G", "50H"]),
    ("Field50OrderingCustomerAFK", "50", &["50A", "50F", "50K"]),
    ("Field50OrderingCustomerNCF", "50", &["50", "50C", "50F"]),
    ("Field50Creditor", "50", &["50A", "50K"]),
    ("Field52AccountServicingInstitution", "52", &["52A", "52C"]),
    ("Field52OrderingInstitution", "52", &["52A", "52D"]),
    ("Field52CreditorBank", "52", &["52A", "52C", "52D"]),
    ("Field52DrawerBank", "52", &["52A", "52B", "52D"]),
    ("Field53SenderCorrespondent", "53", &["53A", "53B", "53D"]),
    ("Field54ReceiverCorrespondent", "54", &["54A", "54B", "54D"]),
    ("Field55ThirdReimbursementInstitution", "55", &["55A", "55B", "55D"]),
    ("Field56Intermediary", "56", &["56A", "56C", "56D"]),
    ("Field56IntermediaryAD", "56", &["56A", "56D"]),
    ("Field57", "57", &["57A", "57B", "57C", "57D"]),
    ("Field57DebtInstitution", "57", &["57A", "57B", "57D"]),
    ("Field58", "58", &["58A", "58D"]),
    ("Field59", "59", &["59A", "59F", "59"]),
    ("Field59Debtor", "59", &["59A", "59"]),
    ("Field60", "60", &["60F", "60M"]),
    ("Field62", "62", &["62F", "62M"]),
];
/// all kinds whose tag carries the given number
pub fn kinds_with_number(num: &str) -> Vec<&'static str> {
    super::m1::kinds().iter().filter(|k| k.tag.len() >= 2 && &k.tag[..2] == num).map(|k| k.tag).collect()
}
