//! Embedded ISO 4217 active code list with minor units (independent of the crate's
//! `get_currency_decimals`). 255 = "not applicable" (funds / metals).
pub const TABLE: &[(&str, u8)] = &[
("AED",2),("AFN",2),("ALL",2),("AMD",2),("ANG",2),("AOA",2),("ARS",2),("AUD",2),("AWG",2),("AZN",2),
("BAM",2),("BBD",2),("BDT",2),("BGN",2),("BHD",3),("BIF",0),("BMD",2),("BND",2),("BOB",2),("BOV",2),
("BRL",2),("BSD",2),("BTN",2),("BWP",2),("BYN",2),("BZD",2),("CAD",2),("CDF",2),("CHE",2),("CHF",2),
("CHW",2),("CLF",4),("CLP",0),("CNY",2),("COP",2),("COU",2),("CRC",2),("CUP",2),("CVE",2),("CZK",2),
("DJF",0),("DKK",2),("DOP",2),("DZD",2),("EGP",2),("ERN",2),("ETB",2),("EUR",2),("FJD",2),("FKP",2),
("GBP",2),("GEL",2),("GHS",2),("GIP",2),("GMD",2),("GNF",0),("GTQ",2),("GYD",2),("HKD",2),("HNL",2),
("HTG",2),("HUF",2),("IDR",2),("ILS",2),("INR",2),("IQD",3),("IRR",2),("ISK",0),("JMD",2),("JOD",3),
("JPY",0),("KES",2),("KGS",2),("KHR",2),("KMF",0),("KPW",2),("KRW",0),("KWD",3),("KYD",2),("KZT",2),
("LAK",2),("LBP",2),("LKR",2),("LRD",2),("LSL",2),("LYD",3),("MAD",2),("MDL",2),("MGA",2),("MKD",2),
("MMK",2),("MNT",2),("MOP",2),("MRU",2),("MUR",2),("MVR",2),("MWK",2),("MXN",2),("MXV",2),("MYR",2),
("MZN",2),("NAD",2),("NGN",2),("NIO",2),("NOK",2),("NPR",2),("NZD",2),("OMR",3),("PAB",2),("PEN",2),
("PGK",2),("PHP",2),("PKR",2),("PLN",2),("PYG",0),("QAR",2),("RON",2),("RSD",2),("RUB",2),("RWF",0),
("SAR",2),("SBD",2),("SCR",2),("SDG",2),("SEK",2),("SGD",2),("SHP",2),("SLE",2),("SOS",2),("SRD",2),
("SSP",2),("STN",2),("SVC",2),("SYP",2),("SZL",2),("THB",2),("TJS",2),("TMT",2),("TND",3),("TOP",2),
("TRY",2),("TTD",2),("TWD",2),("TZS",2),("UAH",2),("UGX",0),("USD",2),("USN",2),("UYI",0),("UYU",2),
("UYW",4),("UZS",2),("VED",2),("VES",2),("VND",0),("VUV",0),("WST",2),("XAF",0),("XCD",2),("XOF",0),
("XPF",0),("YER",2),("ZAR",2),("ZMW",2),("ZWG",2),
("XAU",255),("XAG",255),("XPD",255),("XPT",255),("XDR",255),("XSU",255),("XUA",255),("XBA",255),("XBB",255),("XBC",255),("XBD",255),("XTS",255),("XXX",255),
];
pub fn minor_units(c: &str) -> Option<u8> { TABLE.iter().find(|(k, _)| *k == c).map(|(_, d)| *d) }
pub const COMMODITIES: [&str; 4] = ["XAU", "XAG", "XPD", "XPT"];
