pub mod iso4217;
pub mod m1;
pub mod m2;
pub mod m3;
pub mod families;
pub mod mutate;
pub mod corpus;

/// Wrap block-4 fields (LF form, each field ending in LF) into a complete input message.
pub fn envelope(mt: &str, block4_lf: &str) -> String {
    format!("{{1:F01BANKBEBBAXXX0000000000}}{{2:I{mt}BANKDEFFXXXXN}}{{4:\n{block4_lf}-}}")
}
pub fn envelope_full(mt: &str, block4_lf: &str) -> String {
    format!("{{1:F01BANKBEBBAXXX0000000000}}{{2:I{mt}BANKDEFFXXXXN}}{{3:{{108:MUR123}}}}{{4:\n{block4_lf}-}}{{5:{{CHK:123456789ABC}}}}")
}
