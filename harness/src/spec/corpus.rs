//! Shared corpus of model-generated valid messages (E-layout traces).
use super::m2::{self, Base, Explorer, Msg};
use std::collections::HashSet;

pub struct CorpusStats { pub mt: &'static str, pub regime: String, pub states: u64, pub transitions: u64, pub messages: usize }

/// All messages of type `mt` within the tier's bound: the full product of the layout automaton if
/// it has at most `cap` paths, otherwise every path within `d` deviations of the minimal and of
/// the maximal base message.
/// A trace whose text has a second reading. The standards resolve it ("an 86 directly after a 61
/// belongs to that statement line"), so the reading that attaches such an 86 to the message level
/// is not a member of the language and is dropped from the corpus.
pub fn ambiguous(m: &Msg) -> bool {
    use crate::spec::m2::Cont;
    m.occs.windows(2).any(|w| w[0].tag == "61" && w[1].tag == "86" && matches!(w[1].cont, Cont::Root) && !matches!(w[0].cont, Cont::Root))
}

pub fn corpus(mt: &str, d: u32, cap: u64) -> (Vec<Msg>, CorpusStats) {
    let l = m2::layout(mt);
    let mut seen: HashSet<String> = HashSet::new();
    let mut out: Vec<Msg> = vec![];
    // try the full product first
    let mut ex = Explorer::new(l, Base::Min, u32::MAX);
    ex.cap = cap;
    let mut tmp: Vec<Msg> = vec![];
    ex.run(&mut |m| tmp.push(m.clone()));
    if !ex.capped {
        let (st, tr) = (ex.states, ex.transitions);
        for m in tmp { if !ambiguous(&m) && seen.insert(m.text_lf()) { out.push(m); } }
        // deviations are not meaningful in the full product; recompute them relative to min base as 0
        let n = out.len();
        return (out, CorpusStats { mt: l.mt, regime: "full-product".into(), states: st, transitions: tr, messages: n });
    }
    drop(tmp);
    let (mut st, mut tr) = (0, 0);
    for b in [Base::Min, Base::Max] {
        let mut ex = Explorer::new(l, b, d);
        ex.run(&mut |m| { if !ambiguous(m) && seen.insert(m.text_lf()) { out.push(m.clone()); } });
        st += ex.states; tr += ex.transitions;
    }
    // fewest deviations first so that single-deviation culprits are known before pairs
    out.sort_by_key(|m| m.deviations);
    let n = out.len();
    (out, CorpusStats { mt: l.mt, regime: format!("deviations<={d} from min and max base"), states: st, transitions: tr, messages: n })
}
