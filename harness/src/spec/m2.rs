//! M2 — message layout table (30 types) written in a small layout language, plus the
//! deviation-bounded explorer over the resulting automaton (E-layout).
//!
//! Layout language:  items separated by `;`
//!   `20 M`            mandatory single field
//!   `23E O*`          optional repeatable field (`O*3` = at most 3)
//!   `50{A,F,K} M`     option family (`-` = no letter); `25{-,P} M @25` = tag 25 whose content may be of kind 25 or 25P
//!   `34F O @34F_1`    JSON key override;  `60{F,M} M @@60` = JSON key `60` holding `{ "<letter>": … }`
//!   `( 1..10 | … )`   repeating sequence serialised as array under `#`;  `(obj 0..1 | … )` = optional single object under `#`
//! Sources: struct definitions + serde attributes + to_mt_string order in src/messages/mtNNN.rs.

use super::m1::{self, CV};
use serde_json::Value;
use std::sync::OnceLock;

#[derive(Clone, Debug)]
pub struct Alt { pub tag: String, pub kind: String }
#[derive(Clone, Debug, PartialEq)]
pub enum JsonAt { Tag, Key(String), Nested(String), Keys(Vec<String>) }
#[derive(Clone, Debug)]
pub struct El { pub alts: Vec<Alt>, pub mand: bool, /// mandatory as documented (false for `M~`: mandatory only in the model, to keep generation unambiguous)
    pub doc_mand: bool, pub max: usize, pub json: JsonAt }
#[derive(Clone, Debug)]
pub struct Seq { pub lo: usize, pub hi: usize, pub array: bool, pub flat: bool, pub els: Vec<Node> }
#[derive(Clone, Debug)]
pub enum Node { F(El), S(Seq) }
#[derive(Clone, Debug)]
pub struct Layout { pub mt: &'static str, pub nodes: Vec<Node> }

fn parse_items(src: &str) -> Vec<Node> {
    // split on ';' at depth 0
    let mut items = vec![]; let mut depth = 0; let mut cur = String::new();
    for ch in src.chars() {
        match ch { '(' => { depth += 1; cur.push(ch) } ')' => { depth -= 1; cur.push(ch) } ';' if depth == 0 => { items.push(cur.clone()); cur.clear() } _ => cur.push(ch) }
    }
    if !cur.trim().is_empty() { items.push(cur); }
    items.iter().map(|s| s.trim()).filter(|s| !s.is_empty()).map(parse_item).collect()
}
fn parse_item(it: &str) -> Node {
    if it.starts_with('(') {
        let inner = &it[1..it.len() - 1];
        let (head, body) = inner.split_once('|').expect("seq needs |");
        let head = head.trim();
        let (array, flat, range) = if let Some(r) = head.strip_prefix("obj") { (false, false, r.trim()) } else if let Some(r) = head.strip_prefix("flat") { (false, true, r.trim()) } else { (true, false, head) };
        let (lo, hi) = range.split_once("..").expect("range");
        return Node::S(Seq { lo: lo.trim().parse().unwrap(), hi: hi.trim().parse().unwrap(), array, flat, els: parse_items(body) });
    }
    let parts: Vec<&str> = it.split_whitespace().collect();
    assert!(parts.len() >= 2, "bad layout item {it:?}");
    let spec = parts[0];
    let (num, alts) = if spec.contains('|') {
        (spec, spec.split('|').map(|t| Alt { tag: t.to_string(), kind: t.to_string() }).collect())
    } else if let Some(b) = spec.find('{') {
        let num = &spec[..b];
        let inner = &spec[b + 1..spec.len() - 1];
        let alts = inner.split(',').map(|a| {
            let (l, kind_override) = match a.split_once('=') { Some((l, k)) => (l, Some(k)), None => (a, None) };
            let tag = if l == "-" { num.to_string() } else { format!("{num}{l}") };
            Alt { kind: kind_override.map(|k| k.to_string()).unwrap_or_else(|| tag.clone()), tag }
        }).collect();
        (num, alts)
    } else { (spec, vec![Alt { tag: spec.to_string(), kind: spec.to_string() }]) };
    let _ = num;
    let flag = parts[1];
    let mand = flag.starts_with('M');
    let doc_mand = mand && !flag.contains('~');
    let max = if let Some(p) = flag.find('*') { let r = &flag[p + 1..]; if r.is_empty() { usize::MAX } else { r.parse().unwrap() } } else { 1 };
    let mut json = JsonAt::Tag;
    for p in &parts[2..] {
        if let Some(k) = p.strip_prefix("@@") { json = JsonAt::Nested(k.to_string()); }
        else if let Some(k) = p.strip_prefix('@') { if k.contains(',') { json = JsonAt::Keys(k.split(',').map(|x| x.to_string()).collect()); } else { json = JsonAt::Key(k.to_string()); } }
    }
    Node::F(El { alts, mand, doc_mand, max, json })
}

const L: &[(&str, &str)] = &[
("101", "20 M; 21R O; 28D M; 50{C,L} O; 50{F,G,H} O; 52{A,C} O; 51A O; 30 M; 25 O; \
         ( 1..99 | 21 M; 21F O; 23E O*; 32B M; 50{C,L} O; 50{F,G,H} O; 52{A,C} O; 56{A,C,D} O; 57{A,B,C,D} O; 59{-,A,F} M; 70 O; 77B O; 33B O; 71A M; 25A O; 36 O )"),
("103", "20 M; 13C O*; 23B M; 23E O*; 26T O; 32A M; 33B O; 36 O; 50{A,F,K} M; 51A O; 52{A,D} O; 53{A,B,D} O; 54{A,B,D} O; 55{A,B,D} O; 56{A,C,D} O; 57{A,B,C,D} O; 59{-,A,F} M; 70 O; 71A M; 71F O*; 71G O; 72 O; 77B O; 77T O"),
("104", "20 M; 21R O; 23E O; 21E O; 30 M; 51A O; 50{C,L} O; 50{A,K} O; 52{A,C,D} O; 26T O; 77B O; 71A O; 72 O; \
         ( 1..99 | 21 M; 23E O; 21C O; 21D O; 21E O; 32B M; 50{C,L} O; 50{A,K} O; 52{A,C,D} O; 57{A,B,C,D} O; 59{-,A} M; 70 O; 26T O; 77B O; 33B O; 71A O; 71F O; 71G O; 36 O ); \
         (flat 0..1 | 32B M~; 19 O; 71F O; 71G O; 53{A,B,D} O )"),
("107", "20 M; 23E O; 21E O; 30 M; 51A O; 50{C,L} O; 50{A,K} O; 52{A,C,D} O; 26T O; 77B O; 71A O; 72 O; \
         ( 1..99 | 21 M; 23E O; 21C O; 21D O; 21E O; 32B M; 50{C,L} O; 50{A,K} O; 52{A,C,D} O; 57{A,B,C,D} O; 59{-,A,F} M; 70 O; 26T O; 77B O; 33B O; 71A O; 71F O; 71G O; 36 O ); \
         32B M; 19 O; 71F O; 71G O; 53{A,B,D} O"),
("110", "20 M; 53{A,B,D} O; 54{A,B,D} O; 72 O; ( 1..10 | 21 M; 30 M; 32{A,B} M; 50{A,F,K} O; 52{A,B,D} O; 59{-,A,F} M )"),
("111", "20 M; 21 M; 30 M; 32{A,B} M; 52{A,D} O; 59{-} O; 75 O"),
("112", "20 M; 21 M; 30 M; 32{A,B} M; 52{A,D} O; 59{-} O; 76 M"),
("190", "20 M; 21 M; 25 M; 32{C,D} M; 52{A,D} O; 71B M; 72 O"),
("191", "20 M; 21 M; 32B M; 52{A,D} O; 57{A,B,C,D} O; 71B M; 72 O"),
("192", "20 M; 21 M; 11S M; 79 O"),
("196", "20 M; 21 M; 76 M; 77A O; 11 O; 79 O"),
("199", "20 M; 21 O; 79 M"),
("200", "20 M; 32A M; 53B O; 56{A,D} O; 57{A,B,D} M; 72 O"),
("202", "20 M; 21 M; 13C O*; 32A M; 52{A,D} O; 53{A,B,D} O; 54{A,B,D} O; 56{A,C,D} O; 57{A,B,C,D} O; 58{A,D} M; 72 O; \
         (obj 0..1 | 50{A,F,K} M~; 52{A,D} O; 56{A,C,D} O; 57{A,B,C,D} O; 59{-,A,F} M~; 70 O; 72 O; 33B O )"),
("204", "19 M; 20 M; 30 M; 57{A,B,C,D} O; 58{A,D} O; 72 O; ( 1..10 | 20 M; 21 O; 32B M; 53{A,B,D} O; 72 O )"),
("205", "20 M; 21 M; 13C O*; 32A M; 52{A,D} O; 53{A,B,D} O; 56{A,C,D} O; 57{A,B,C,D} O; 58{A,D} M; 72 O"),
("210", "20 M; 25 O; 30 M; ( 1..10 | 21 O; 32B M; 50{-,C,F} O; 52{A,D} O; 56{A,C,D} O )"),
("290", "20 M; 21 M; 25 M; 32{C,D} M; 52{A,D} O; 71B M; 72 O"),
("291", "20 M; 21 M; 32B M; 52{A,D} O; 57{A,B,D} O; 71B M; 72 O"),
("292", "20 M; 21 M; 11S M; 79 M"),
("296", "20 M; 21 M; 76 M; 77A O; 11R O; 11S O; 79 O"),
("299", "20 M; 21 O; 79 M"),
("900", "20 M; 21 M; 25{-,P} M @25; 13D O; 32A M; 52{A,D} O; 72 O"),
("910", "20 M; 21 M; 25{-,P} M @25; 13D O; 32A M; 50{A,F,K} O; 52{A,D} O; 56{A,C,D} O; 72 O"),
("920", "20 M; ( 1..100 | 12 M; 25 M; 34F O*2 @34F_1,34F_2 )"),
("935", "20 M; ( 1..10 | 23|25 M; 30 M; 37H M* ); 72 O"),
("940", "20 M; 21 O; 25 M; 28C M; 60F M; ( 1..500 | 61 M; 86 O ); 62F M; 64 O; 65 O*"),
("941", "20 M; 21 O; 25{-,P} M @25; 28 M; 13D O; 60F O; 90D O; 90C O; 62F M; 64 O; 65 O*; 86 O"),
("942", "20 M; 21 O; 25{-,P} M @25; 28C M; 34F M*2 @34F_debit,34F_credit; 13D M; ( 0..500 | 61 M; 86 O ); 90D O; 90C O; 86 O"),
("950", "20 M; 25 M; 28C M; 60{F,M} M @@60; 61 O*; 62{F,M} M @@62; 64 O"),
];

pub fn layouts() -> &'static Vec<Layout> {
    static C: OnceLock<Vec<Layout>> = OnceLock::new();
    C.get_or_init(|| L.iter().map(|(mt, src)| Layout { mt, nodes: parse_items(src) }).collect())
}
pub fn layout(mt: &str) -> &'static Layout { layouts().iter().find(|l| l.mt == mt).expect("layout") }

// ---------------------------------------------------------------- generated messages

#[derive(Clone, Debug, PartialEq)]
pub enum Cont { Root, SeqItem(usize), SeqObj }

/// One field occurrence of a generated message.
#[derive(Clone, Debug)]
pub struct Occ {
    pub tag: String,
    pub kind: String,
    pub content: String,
    pub cont: Cont,
    pub json: JsonAt,
    /// index of the layout element (flattened id, stable per layout) – used for finding keys
    pub el_id: usize,
    pub repeatable: bool,
    pub mand: bool,
    pub doc_mand: bool,
    pub inst_class: &'static str,
}

#[derive(Clone, Debug)]
pub struct Msg { pub mt: &'static str, pub occs: Vec<Occ>, pub seq_count: Option<usize>, pub seq_array: bool, pub deviations: u32, pub base: &'static str, pub devs: Vec<String> }

impl Msg {
    pub fn toks(&self) -> Vec<crate::common::tok::Tok> {
        self.occs.iter().map(|o| crate::common::tok::Tok { tag: o.tag.clone(), content: o.content.clone() }).collect()
    }
    /// canonical serialiser form of block 4 (what `to_mt_string` documents: CRLF-joined, no terminator)
    pub fn text_crlf(&self) -> String { crate::common::tok::render_crlf(&self.toks()).replace('\n', "\n") }
    /// block-4 text as it appears inside a message: LF form with `-` terminator handled by the envelope
    pub fn text_lf(&self) -> String { crate::common::tok::render_lf(&self.toks()) }
    pub fn describe(&self) -> String {
        self.occs.iter().map(|o| match &o.cont { Cont::Root => o.tag.clone(), Cont::SeqItem(i) => format!("{}@{}", o.tag, i), Cont::SeqObj => format!("{}@B", o.tag) }).collect::<Vec<_>>().join(" ")
    }
}

#[derive(Clone)]
enum Item<'a> { El(&'a El, Cont, usize /*el id*/, usize /*occurrence idx for instance rotation*/), Seq(&'a Seq, usize /*first el id*/) }

#[derive(Clone, Copy, PartialEq, Debug)]
pub enum Base { Min, Max }

fn count_els(nodes: &[Node]) -> usize { nodes.iter().map(|n| match n { Node::F(_) => 1, Node::S(s) => count_els(&s.els) }).sum() }

pub struct Explorer<'a> {
    pub layout: &'a Layout,
    pub base: Base,
    /// deviation budget (u32::MAX = full product)
    pub budget: u32,
    /// repetition menu for repeatable fields / sequences beyond the base value
    pub rep_menu: Vec<usize>,
    /// explore every instance class (true) or only "typ" (false) as a deviation
    pub inst_deviations: bool,
    pub states: u64,
    pub transitions: u64,
    pub cap: u64,
    pub emitted: u64,
    pub capped: bool,
    devs: Vec<String>,
}

impl<'a> Explorer<'a> {
    pub fn new(layout: &'a Layout, base: Base, budget: u32) -> Self {
        Explorer { layout, base, budget, rep_menu: vec![0, 1, 2, 3], inst_deviations: true, states: 0, transitions: 0, cap: u64::MAX, emitted: 0, capped: false, devs: vec![] }
    }

    fn top_items(&self) -> Vec<Item<'a>> {
        let mut v = vec![]; let mut id = 0;
        for n in &self.layout.nodes {
            match n { Node::F(e) => { v.push(Item::El(e, Cont::Root, id, 0)); id += 1; } Node::S(s) => { v.push(Item::Seq(s, id)); id += count_els(&s.els); } }
        }
        v
    }

    /// Enumerate all messages within the budget; `out` is called once per complete path.
    pub fn run(&mut self, out: &mut dyn FnMut(&Msg)) {
        let items = self.top_items();
        let mut acc = vec![];
        let mut seq_count = None;
        self.rec(&items, 0, self.budget, &mut acc, &mut seq_count, out);
    }

    fn rec(&mut self, items: &[Item<'a>], pos: usize, budget: u32, acc: &mut Vec<Occ>, seq_count: &mut Option<usize>, out: &mut dyn FnMut(&Msg)) {
        if self.capped { return; }
        self.states += 1;
        if pos == items.len() {
            self.emitted += 1;
            if self.emitted > self.cap { self.capped = true; return; }
            let seq_array = self.layout.nodes.iter().any(|n| matches!(n, Node::S(s) if s.array && !s.flat));
            let used = if self.budget == u32::MAX { 0 } else { self.budget - budget };
            out(&Msg { mt: self.layout.mt, occs: acc.clone(), seq_count: *seq_count, seq_array, deviations: used, base: if self.base == Base::Min { "min" } else { "max" }, devs: self.devs.clone() });
            return;
        }
        match items[pos].clone() {
            Item::Seq(s, first_id) => {
                let base_n = match self.base { Base::Min => s.lo, Base::Max => s.lo.max(2).min(s.hi) };
                let mut menu: Vec<usize> = vec![base_n];
                for &n in &self.rep_menu { if n >= s.lo && n <= s.hi && !menu.contains(&n) { menu.push(n); } }
                if s.hi <= 10 && !menu.contains(&s.hi) { menu.push(s.hi); }
                for (k, n) in menu.iter().enumerate() {
                    let cost = if k == 0 { 0 } else { 1 };
                    if cost > budget { continue; }
                    self.transitions += 1;
                    let mut spliced: Vec<Item<'a>> = items[..pos].to_vec();
                    for occ in 0..*n {
                        let mut id = first_id;
                        for e in &s.els {
                            match e { Node::F(el) => { spliced.push(Item::El(el, if s.flat { Cont::Root } else if s.array { Cont::SeqItem(occ) } else { Cont::SeqObj }, id, occ)); id += 1; } Node::S(_) => panic!("nested sequences not used") }
                        }
                    }
                    let newpos = spliced.len();
                    spliced.extend_from_slice(&items[pos + 1..]);
                    let saved = *seq_count;
                    if !s.flat { *seq_count = Some(*n); }
                    if cost > 0 { self.devs.push(format!("seq={n}")); }
                    // continue at the first spliced item (or after, if n == 0)
                    let start = pos;
                    let _ = newpos;
                    self.rec(&spliced, start, budget - cost, acc, seq_count, out);
                    if cost > 0 { self.devs.pop(); }
                    *seq_count = saved;
                }
            }
            Item::El(e, cont, id, occ_idx) => {
                // (count, alt, inst) options; option 0 is the base default
                let base_count = match (self.base, e.mand) { (Base::Min, true) => 1, (Base::Min, false) => 0, (Base::Max, _) => if e.max > 1 { 2 } else { 1 } };
                let mut counts = vec![base_count];
                let lo = if e.mand { 1 } else { 0 };
                if e.max > 1 { for &n in &self.rep_menu { if n >= lo && n <= e.max && !counts.contains(&n) { counts.push(n); } } }
                else { for n in [0usize, 1] { if n >= lo && !counts.contains(&n) { counts.push(n); } } }
                for (ci, &cnt) in counts.iter().enumerate() {
                    let c_cost = if ci == 0 { 0 } else { 1 };
                    if c_cost > budget { continue; }
                    let at = match &cont { Cont::Root => String::new(), Cont::SeqItem(n) => format!("@{n}"), Cont::SeqObj => "@B".to_string() };
                    if cnt == 0 {
                        self.transitions += 1;
                        if c_cost > 0 { self.devs.push(format!("-{}{}", e.alts[0].tag, at)); }
                        self.rec(items, pos + 1, budget - c_cost, acc, seq_count, out);
                        if c_cost > 0 { self.devs.pop(); }
                        continue;
                    }
                    for (ai, alt) in e.alts.iter().enumerate() {
                        let a_cost = if ai == 0 { 0 } else { 1 };
                        if c_cost + a_cost > budget { continue; }
                        let k = m1::kind(&alt.kind).unwrap_or_else(|| panic!("no M1 kind {}", alt.kind));
                        let insts = (k.insts)();
                        let n_inst = if self.inst_deviations { insts.len() } else { 1 };
                        for ii in 0..n_inst {
                            let i_cost = if ii == 0 { 0 } else { 1 };
                            if c_cost + a_cost + i_cost > budget { continue; }
                            self.transitions += 1;
                            let before = acc.len();
                            for r in 0..cnt {
                                // rotate instances over repetitions / sequence occurrences so that
                                // every occurrence of a repeated element carries different content
                                let idx = (ii + r + occ_idx) % insts.len();
                                let idx = if ii == 0 && r == 0 && occ_idx == 0 { 0 } else { idx };
                                acc.push(Occ { tag: alt.tag.clone(), kind: alt.kind.clone(), content: insts[idx].1.clone(), cont: cont.clone(), json: e.json.clone(), el_id: id, repeatable: e.max > 1, mand: e.mand, doc_mand: e.doc_mand, inst_class: insts[idx].0 });
                            }
                            let mut pushed = 0;
                            if c_cost > 0 { self.devs.push(format!("{}x{}{}", cnt, alt.tag, at)); pushed += 1; }
                            if a_cost > 0 { self.devs.push(format!("opt:{}{}", alt.tag, at)); pushed += 1; }
                            if i_cost > 0 { self.devs.push(format!("{}[{}]{}", alt.tag, insts[ii].0, at)); pushed += 1; }
                            self.rec(items, pos + 1, budget - c_cost - a_cost - i_cost, acc, seq_count, out);
                            for _ in 0..pushed { self.devs.pop(); }
                            acc.truncate(before);
                        }
                    }
                }
            }
        }
    }
}

/// Minimal and maximal base messages of a type (0 deviations).
pub fn base_msgs(mt: &str) -> Vec<Msg> {
    let mut v = vec![];
    for b in [Base::Min, Base::Max] {
        let mut ex = Explorer::new(layout(mt), b, 0);
        ex.run(&mut |m| v.push(m.clone()));
    }
    v
}

// ---------------------------------------------------------------- membership (is a tag sequence in the layout language?)

/// Does the tag sequence belong to the layout's language?  (contents are not judged here)
pub fn accepts_tags(l: &Layout, tags: &[String]) -> bool {
    fn m_nodes(nodes: &[Node], ni: usize, tags: &[String], ti: usize, k: &mut dyn FnMut(usize) -> bool) -> bool {
        if ni == nodes.len() { return k(ti); }
        match &nodes[ni] {
            Node::F(e) => {
                // try counts from max feasible down to min
                let lo = if e.mand { 1 } else { 0 };
                // greedy alternatives: consume c occurrences (c in lo..=max) while tags match any alt
                let mut c = 0usize; let mut pos = ti;
                let mut positions = vec![pos];
                while c < e.max && pos < tags.len() && e.alts.iter().any(|a| a.tag == tags[pos]) { pos += 1; c += 1; positions.push(pos); if e.max == 1 { break; } }
                for cc in (lo..=c).rev() {
                    if m_nodes(nodes, ni + 1, tags, positions[cc], k) { return true; }
                }
                false
            }
            Node::S(s) => {
                fn rep(s: &Seq, done: usize, nodes: &[Node], ni: usize, tags: &[String], ti: usize, k: &mut dyn FnMut(usize) -> bool) -> bool {
                    if done >= s.lo && m_nodes(nodes, ni + 1, tags, ti, k) { return true; }
                    if done < s.hi {
                        let mut kk = |t2: usize| -> bool { if t2 == ti { return false; } rep(s, done + 1, nodes, ni, tags, t2, k) };
                        return m_nodes(&s.els, 0, tags, ti, &mut kk);
                    }
                    false
                }
                rep(s, 0, nodes, ni, tags, ti, k)
            }
        }
    }
    m_nodes(&l.nodes, 0, tags, 0, &mut |t| t == tags.len())
}

// ---------------------------------------------------------------- JSON expectation

fn leaves(v: &Value, out: &mut Vec<Value>) {
    match v {
        Value::Null => {}
        Value::Object(m) => for (_, x) in m { leaves(x, out) },
        Value::Array(a) => for x in a { leaves(x, out) },
        other => out.push(other.clone()),
    }
}

pub fn json_num_to_dec(n: &serde_json::Number) -> Option<String> {
    // serde_json prints the shortest representation that round-trips; read it as an exact decimal
    let s = n.to_string();
    if s.contains('e') || s.contains('E') {
        let f: f64 = s.parse().ok()?;
        if !f.is_finite() { return None; }
        let t = format!("{:.10}", f);
        let (i, fr) = t.split_once('.').unwrap();
        return Some(m1::dec_norm_parts(i, fr));
    }
    let s = s.trim_start_matches('-');
    match s.split_once('.') { Some((i, f)) => Some(m1::dec_norm_parts(i, f)), None => Some(m1::dec_norm_parts(s, "")) }
}

fn leaf_matches(c: &CV, l: &Value) -> bool {
    match (c, l) {
        (CV::S(s), Value::String(t)) => s == t,
        (CV::NL(s), Value::String(t)) => s == t || (s.len() >= 2 && &s[2..] == t),
        (CV::P(s), Value::String(t)) => s == t.trim_start_matches('/') ,
        (CV::N(n), Value::Number(x)) => x.as_u64() == Some(*n),
        (CV::N(n), Value::String(t)) => t.parse::<u64>().ok() == Some(*n),
        (CV::D(d), Value::Number(x)) => json_num_to_dec(x).as_deref() == Some(d.as_str()),
        (CV::Date(y, m, d), Value::String(t)) => {
            *t == format!("{:04}-{:02}-{:02}", y, m, d) || *t == format!("{:02}{:02}{:02}", y % 100, m, d)
        }
        (CV::T(h), Value::String(t)) => h == t,
        (CV::Flag, Value::Bool(true)) => true,
        _ => false,
    }
}

/// multiset match between model components and the JSON leaves of one field value
pub fn match_components(comps: &[(&'static str, CV)], v: &Value) -> Result<(), String> {
    let mut ls = vec![]; leaves(v, &mut ls);
    let mut used = vec![false; ls.len()];
    for (name, c) in comps {
        let mut found = false;
        for (i, l) in ls.iter().enumerate() {
            if !used[i] && leaf_matches(c, l) { used[i] = true; found = true; break; }
        }
        if !found { return Err(format!("json-missing:{name}")); }
    }
    if let Some(i) = used.iter().position(|u| !u) { return Err(format!("json-extra:{}", match &ls[i] { Value::String(_) => "string", Value::Number(_) => "number", Value::Bool(_) => "bool", _ => "other" })); }
    Ok(())
}

/// Check that `fields` (JSON of the message body) exposes exactly the occurrences of `msg`.
/// Err((clause, locus)).
pub fn check_json(msg: &Msg, fields: &Value) -> Result<(), (String, String)> {
    let obj = fields.as_object().ok_or(("json-wrong".to_string(), "fields-not-object".to_string()))?;
    // group occurrences by container
    let mut conts: Vec<Cont> = vec![Cont::Root];
    if let Some(n) = msg.seq_count { if msg.seq_array { for i in 0..n { conts.push(Cont::SeqItem(i)); } } else if n > 0 { conts.push(Cont::SeqObj); } }
    // '#' shape
    match (msg.seq_count, obj.get("#")) {
        (Some(n), Some(Value::Array(a))) if msg.seq_array => { if a.len() != n { return Err(("json-wrong".into(), format!("#.len={}!={}", a.len(), n))); } }
        (Some(0), None) | (Some(0), Some(Value::Null)) | (None, None) => {}
        (Some(_), Some(Value::Object(_))) if !msg.seq_array => {}
        (Some(n), None) | (Some(n), Some(Value::Null)) if n > 0 => return Err(("json-missing".into(), "#".into())),
        (None, Some(Value::Null)) => {}
        (a, b) => return Err(("json-wrong".into(), format!("#:{:?}/{}", a, b.map(|x| x.to_string().chars().take(40).collect::<String>()).unwrap_or_default()))),
    }
    for cont in conts {
        let cobj: &serde_json::Map<String, Value> = match &cont {
            Cont::Root => obj,
            Cont::SeqItem(i) => obj.get("#").and_then(|a| a.get(*i)).and_then(|x| x.as_object()).ok_or(("json-missing".to_string(), format!("#[{i}]")))?,
            Cont::SeqObj => obj.get("#").and_then(|x| x.as_object()).ok_or(("json-missing".to_string(), "#".to_string()))?,
        };
        let mut consumed: Vec<String> = vec![];
        let occs: Vec<&Occ> = msg.occs.iter().filter(|o| o.cont == cont).collect();
        let mut i = 0;
        while i < occs.len() {
            let o = occs[i];
            // group of consecutive occurrences of the same element
            let mut j = i; while j < occs.len() && occs[j].el_id == o.el_id { j += 1; }
            let group = &occs[i..j];
            if let JsonAt::Keys(keys) = &o.json {
                for (gi, g) in group.iter().enumerate() {
                    let k = keys.get(gi).cloned().unwrap_or_default();
                    let val = cobj.get(&k).filter(|v| !v.is_null()).ok_or(("json-missing".to_string(), format!("{}#{}", g.tag, gi)))?;
                    consumed.push(k.clone());
                    let comps = m1::components(&g.kind, &g.content).expect("instance components");
                    match_components(&comps, val).map_err(|e| { let (c, d) = e.split_once(':').unwrap(); (c.to_string(), format!("{}#{}.{}", g.tag, gi, d)) })?;
                }
                i = j;
                continue;
            }
            let (key, nested) = match &o.json { JsonAt::Tag => (o.tag.clone(), None), JsonAt::Key(k) => (k.clone(), None), JsonAt::Nested(k) => (k.clone(), Some(o.tag[k.len()..].to_string())), JsonAt::Keys(_) => unreachable!() };
            let where_ = |k: &str| match &cont { Cont::Root => k.to_string(), Cont::SeqItem(n) => format!("{k}@{n}"), Cont::SeqObj => format!("{k}@B") };
            let val = cobj.get(&key).filter(|v| !v.is_null()).ok_or(("json-missing".to_string(), where_(&o.tag)))?;
            consumed.push(key.clone());
            let val = match &nested { Some(letter) => val.get(letter).ok_or(("json-missing".to_string(), where_(&o.tag)))?, None => val };
            if o.repeatable && !matches!(o.json, JsonAt::Keys(_)) {
                let arr = val.as_array().ok_or(("json-wrong".to_string(), format!("{}:not-array", where_(&o.tag))))?;
                if arr.len() != group.len() { return Err(("json-wrong".into(), format!("{}:count", where_(&o.tag)))); }
                for (g, a) in group.iter().zip(arr) {
                    let comps = m1::components(&g.kind, &g.content).expect("instance components");
                    match_components(&comps, a).map_err(|e| { let (c, d) = e.split_once(':').unwrap(); (c.to_string(), format!("{}.{}", where_(&g.tag), d)) })?;
                }
            } else {
                let comps = m1::components(&o.kind, &o.content).expect("instance components");
                match_components(&comps, val).map_err(|e| { let (c, d) = e.split_once(':').unwrap(); (c.to_string(), format!("{}.{}", where_(&o.tag), d)) })?;
            }
            i = j;
        }
        for (k, v) in cobj {
            if k == "#" || v.is_null() { continue; }
            if !consumed.contains(k) { return Err(("json-extra".into(), match &cont { Cont::Root => k.clone(), Cont::SeqItem(n) => format!("{k}@{n}"), Cont::SeqObj => format!("{k}@B") })); }
        }
    }
    Ok(())
}

/// Self-check: every generated base message must be in its own layout language.
pub fn self_check() -> Result<usize, String> {
    let mut n = 0;
    for l in layouts() {
        for m in base_msgs(l.mt) {
            let tags: Vec<String> = m.occs.iter().map(|o| o.tag.clone()).collect();
            if !accepts_tags(l, &tags) { return Err(format!("M2 self-check: MT{} base message {:?} not in its own language", l.mt, tags)); }
            n += 1;
        }
    }
    Ok(n)
}
