//! M3 — network-rule reference tables. One function per message type, written from the rule
//! statements in the `/// Cn: … (Error code: Xnn)` doc comments, the rule texts carried by the
//! error constructors and the associated-const code tables of src/messages/mtNNN.rs (SR 2025).
//! They work on an abstract `View` of a message (tags + M1 components per sequence), not on the
//! crate's structs.
use super::m1::CV;
use std::collections::BTreeSet;

#[derive(Clone, Debug)]
pub struct FV { pub tag: String, pub comps: Vec<(String, CV)> }
impl FV {
    pub fn s(&self, name: &str) -> Option<String> { self.comps.iter().find(|(n, _)| n == name).and_then(|(_, c)| match c { CV::S(s) | CV::P(s) | CV::D(s) | CV::T(s) | CV::NL(s) => Some(s.clone()), CV::N(n) => Some(n.to_string()), _ => None }) }
    pub fn has(&self, name: &str) -> bool { self.comps.iter().any(|(n, _)| n == name) }
    /// decimal component scaled by 10^6
    pub fn d(&self, name: &str) -> Option<i128> { self.s(name).and_then(|x| dec_scaled(&x)) }
    pub fn lines(&self, name: &str) -> Vec<String> { self.comps.iter().filter(|(n, _)| n == name).filter_map(|(_, c)| match c { CV::S(s) | CV::NL(s) => Some(s.clone()), _ => None }).collect() }
}
pub fn dec_scaled(s: &str) -> Option<i128> {
    let (i, f) = s.split_once('.').unwrap_or((s, ""));
    if f.len() > 6 { return None; }
    let mut f6 = f.to_string(); while f6.len() < 6 { f6.push('0'); }
    Some(i.parse::<i128>().ok()? * 1_000_000 + f6.parse::<i128>().ok()?)
}

#[derive(Clone, Debug, Default)]
pub struct View { pub root: Vec<FV>, pub seqs: Vec<Vec<FV>>, pub seq_obj: Option<Vec<FV>>, pub extra_root_keys: bool }

pub fn get<'a>(fs: &'a [FV], tag: &str) -> Option<&'a FV> { fs.iter().find(|f| f.tag == tag) }
pub fn all<'a>(fs: &'a [FV], tag: &str) -> Vec<&'a FV> { fs.iter().filter(|f| f.tag == tag).collect() }
pub fn any_of<'a>(fs: &'a [FV], tags: &[&str]) -> Option<&'a FV> { fs.iter().find(|f| tags.contains(&f.tag.as_str())) }
pub fn has(fs: &[FV], tags: &[&str]) -> bool { any_of(fs, tags).is_some() }
pub fn num<'a>(fs: &'a [FV], n: &str) -> Option<&'a FV> { fs.iter().find(|f| f.tag.starts_with(n) && f.tag.len() <= n.len() + 1) }
pub fn has_num(fs: &[FV], n: &str) -> bool { num(fs, n).is_some() }

/// result of a reference table: codes that must be reported; codes whose presence is unspecified for this message
#[derive(Default, Debug)]
pub struct Exp { pub must: BTreeSet<&'static str>, pub unspec: BTreeSet<&'static str> }
impl Exp { fn req(&mut self, c: &'static str) { self.must.insert(c); } fn un(&mut self, c: &'static str) { self.unspec.insert(c); } }

const IP: [&str; 2] = ["50C", "50L"];
const OC_FGH: [&str; 3] = ["50F", "50G", "50H"];
const CRED: [&str; 2] = ["50A", "50K"];
const F52: [&str; 4] = ["52A", "52B", "52C", "52D"];
const F53: [&str; 3] = ["53A", "53B", "53D"];
const F54: [&str; 3] = ["54A", "54B", "54D"];
const F55: [&str; 3] = ["55A", "55B", "55D"];
const F56: [&str; 3] = ["56A", "56C", "56D"];
const F57: [&str; 4] = ["57A", "57B", "57C", "57D"];

fn ccy(f: Option<&FV>) -> Option<String> { f.and_then(|f| f.s("currency")) }
fn code23e(f: &FV) -> String { f.s("instruction_code").unwrap_or_default() }

pub fn expected(mt: &str, v: &View) -> Exp {
    let mut e = Exp::default();
    let r = &v.root;
    match mt {
        // -------------------------------------------------------------------------------- MT101
        "101" => {
            const VALID: [&str; 13] = ["CHQB", "CMSW", "CMTO", "CMZB", "CORT", "EQUI", "INTC", "NETS", "OTHR", "PHON", "REPA", "RTGS", "URGP"];
            const WITH_INFO: [&str; 4] = ["CMTO", "PHON", "OTHR", "REPA"];
            const COMBOS: [(&str, &[&str]); 6] = [("CHQB", &["CMSW", "CMTO", "CMZB", "CORT", "NETS", "PHON", "REPA", "RTGS", "URGP"]), ("CMSW", &["CMTO", "CMZB"]), ("CMTO", &["CMZB"]), ("CORT", &["CMSW", "CMTO", "CMZB", "REPA"]), ("EQUI", &["CMSW", "CMTO", "CMZB"]), ("NETS", &["RTGS"])];
            let oc_a = has(r, &OC_FGH);
            let oc_b: Vec<bool> = v.seqs.iter().map(|s| has(s, &OC_FGH)).collect();
            // C3 (D61): 50a F/G/H in A or in every B, never both, never neither
            if (oc_a && oc_b.iter().any(|x| *x)) || (!oc_a && !(oc_b.iter().all(|x| *x) && !oc_b.is_empty())) { e.req("D61"); }
            // C4 (D62): 50a C/L in A or in B, not both
            if has(r, &IP) && v.seqs.iter().any(|s| has(s, &IP)) { e.req("D62"); }
            // C6 (D64): 52a in A or in B, not both
            if has(r, &F52) && v.seqs.iter().any(|s| has(s, &F52)) { e.req("D64"); }
            // C8 (D98): 21R present -> same currency in every 32B
            if has(r, &["21R"]) { let cs: BTreeSet<String> = v.seqs.iter().filter_map(|s| ccy(get(s, "32B"))).collect(); if cs.len() > 1 { e.req("D98"); } }
            for s in &v.seqs {
                let (f36, f21f, f33b, f32b) = (has(s, &["36"]), has(s, &["21F"]), get(s, "33B"), get(s, "32B"));
                // C1 (D54): 36 present -> 21F present
                if f36 && !f21f { e.req("D54"); }
                let zero = f32b.and_then(|f| f.d("amount")) == Some(0);
                // C2 (D60): 33B present & amount != 0 -> 36 mandatory; 33B present & amount = 0 -> 36 not allowed; 33B absent -> 36 not allowed
                match (f33b.is_some(), zero, f36) { (true, false, false) | (true, true, true) | (false, _, true) => e.req("D60"), _ => {} }
                // C5 (D68): 33B currency must differ from 32B currency
                if let (Some(a), Some(b)) = (ccy(f33b), ccy(f32b)) { if a == b { e.req("D68"); } }
                // C7 (D65): 56a -> 57a
                if has(s, &F56) && !has(s, &F57) { e.req("D65"); }
                // C9 (E54): amount zero: EQUI -> 33B mandatory; no EQUI -> 33B and 21F not allowed
                let codes: Vec<&FV> = all(s, "23E");
                if zero { let equi = codes.iter().any(|c| code23e(c) == "EQUI"); if equi { if f33b.is_none() { e.req("E54"); } } else if f33b.is_some() || f21f { e.req("E54"); } }
                // 23E: T47 valid codes, D66 additional info, E46 repetition (except OTHR), D67 combinations
                let mut seen = BTreeSet::new();
                for c in &codes {
                    let k = code23e(c);
                    if !VALID.contains(&k.as_str()) { e.req("T47"); }
                    if c.has("additional_info") && !WITH_INFO.contains(&k.as_str()) { e.req("D66"); }
                    if k != "OTHR" && !seen.insert(k.clone()) { e.req("E46"); }
                }
                for (a, forb) in COMBOS { if codes.iter().any(|c| code23e(c) == a) && codes.iter().any(|c| forb.contains(&code23e(c).as_str())) { e.req("D67"); } }
            }
        }
        // -------------------------------------------------------------------------------- MT103
        "103" => {
            const V23B: [&str; 5] = ["CRED", "CRTS", "SPAY", "SPRI", "SSTD"];
            const V23E: [&str; 12] = ["CHQB", "CORT", "HOLD", "INTC", "PHOB", "PHOI", "PHON", "REPA", "SDVA", "TELB", "TELE", "TELI"];
            const WITH_INFO: [&str; 8] = ["PHON", "PHOB", "PHOI", "TELE", "TELB", "TELI", "HOLD", "REPA"];
            const ORDER: [&str; 12] = ["SDVA", "INTC", "REPA", "CORT", "HOLD", "CHQB", "PHOB", "TELB", "PHON", "TELE", "PHOI", "TELI"];
            const COMBOS: [(&str, &[&str]); 8] = [("SDVA", &["HOLD", "CHQB"]), ("INTC", &["HOLD", "CHQB"]), ("REPA", &["HOLD", "CHQB", "CORT"]), ("CORT", &["HOLD", "CHQB"]), ("HOLD", &["CHQB"]), ("PHOB", &["TELB"]), ("PHON", &["TELE"]), ("PHOI", &["TELI"])];
            let b = get(r, "23B").map(code23e).unwrap_or_default();
            let codes: Vec<&FV> = all(r, "23E");
            if !V23B.contains(&b.as_str()) { e.req("T36"); }
            let mut seen = BTreeSet::new(); let mut pos: Vec<usize> = vec![];
            for c in &codes {
                let k = code23e(c);
                if !V23E.contains(&k.as_str()) { e.req("T48"); }
                if c.has("additional_info") && !WITH_INFO.contains(&k.as_str()) { e.req("D97"); }
                if !seen.insert(k.clone()) { e.req("E46"); }
                if let Some(p) = ORDER.iter().position(|o| *o == k) { pos.push(p); }
            }
            if pos.windows(2).any(|w| w[1] < w[0]) { e.req("D98"); }
            for (a, forb) in COMBOS { if codes.iter().any(|c| code23e(c) == a) && codes.iter().any(|c| forb.contains(&code23e(c).as_str())) { e.req("D67"); } }
            // C1 (D75)
            let (f33b, f36) = (get(r, "33B"), has(r, &["36"]));
            match (ccy(f33b), ccy(get(r, "32A"))) { (Some(a), Some(c)) => { if (a != c) != f36 { e.req("D75"); } } (None, _) => { if f36 { e.req("D75"); } } _ => {} }
            // C3 (E01 / E02)
            if b == "SPRI" { if codes.iter().any(|c| !["SDVA", "TELB", "PHOB", "INTC"].contains(&code23e(c).as_str())) { e.req("E01"); } }
            if (b == "SSTD" || b == "SPAY") && !codes.is_empty() { e.req("E02"); }
            // C4 (E06)
            if has(r, &F55) && !(has(r, &F53) && has(r, &F54)) { e.req("E06"); }
            // C5 (C81)
            if has(r, &F56) && !has(r, &F57) { e.req("C81"); }
            // C6 (E16; E17 is documented for option restrictions)
            if b == "SPRI" && has(r, &F56) { e.req("E16"); }
            if (b == "SSTD" || b == "SPAY") && has(r, &["56D"]) { e.un("E17"); }
            // C7 (E13 / D50 / E15)
            let a71 = get(r, "71A").and_then(|f| f.s("code")).unwrap_or_default();
            let (f71f, f71g) = (has(r, &["71F"]), has(r, &["71G"]));
            if a71 == "OUR" && f71f { e.req("E13"); }
            if a71 == "SHA" && f71g { e.req("D50"); }
            if a71 == "BEN" && (!f71f || f71g) { e.req("E15"); }
            // C8 (D51)
            if (f71f || f71g) && f33b.is_none() { e.req("D51"); }
            // C9 (C02)
            if let (Some(g), Some(a)) = (ccy(get(r, "71G")), ccy(get(r, "32A"))) { if g != a { e.req("C02"); } }
            // C13 (E18): CHQB -> no account in 59a (option F carries a party identifier, not an account: unspecified)
            if codes.iter().any(|c| code23e(c) == "CHQB") { if let Some(f) = num(r, "59") { if f.tag == "59F" { if f.has("party_identifier") { e.un("E18"); } } else if f.has("account") { e.req("E18"); } } }
            // C16 (E44), C17 (E45)
            if !has(r, &F56) && codes.iter().any(|c| ["TELI", "PHOI"].contains(&code23e(c).as_str())) { e.req("E44"); }
            if !has(r, &F57) && codes.iter().any(|c| ["TELE", "PHON"].contains(&code23e(c).as_str())) { e.req("E45"); }
        }
        // -------------------------------------------------------------------------------- MT104 / MT107
        "104" | "107" => {
            let is104 = mt == "104";
            let a23e = get(r, "23E");
            let a_code = a23e.map(code23e);
            let rfdd = is104 && a_code.as_deref() == Some("RFDD");
            let b = &v.seqs;
            let has_c = has(r, &["32B"]);
            if is104 {
                // C1 (C75)
                let viol = match a_code.as_deref() { Some("RFDD") | None => b.iter().any(|s| !has(s, &["23E"])), Some(_) => b.iter().any(|s| has(s, &["23E"])) };
                if viol { e.req("C75"); }
                // C2 (C76)
                let (ca, cb_any, cb_all) = (has(r, &CRED), b.iter().any(|s| has(s, &CRED)), !b.is_empty() && b.iter().all(|s| has(s, &CRED)));
                if (ca && cb_any) || (!ca && !cb_all) { e.req("C76"); }
            } else {
                // MT107 C1 (D86): 23E and 50a (A/K) each in A or in every B, not both
                let (ea, eb_any, eb_all) = (a23e.is_some(), b.iter().any(|s| has(s, &["23E"])), !b.is_empty() && b.iter().all(|s| has(s, &["23E"])));
                let (ca, cb_any, cb_all) = (has(r, &CRED), b.iter().any(|s| has(s, &CRED)), !b.is_empty() && b.iter().all(|s| has(s, &CRED)));
                if (ea && eb_any) || (!ea && !eb_all) || (ca && cb_any) || (!ca && !cb_all) { e.req("D86"); }
            }
            // D73: 21E, 26T, 52a, 71A, 77B, 50a(C/L) in A -> not in B
            for tags in [&["21E"][..], &["26T"], &F52, &["71A"], &["77B"], &IP] { if has(r, tags) && b.iter().any(|s| has(s, tags)) { e.req("D73"); } }
            // D77: 21E -> 50a (A/K) in the same sequence
            if has(r, &["21E"]) && !has(r, &CRED) { e.req("D77"); }
            if b.iter().any(|s| has(s, &["21E"]) && !has(s, &CRED)) { e.req("D77"); }
            // C82: RTND in A <-> 72 present
            if (a_code.as_deref() == Some("RTND")) != has(r, &["72"]) { e.req("C82"); }
            // D79: 71F / 71G in B <-> in C
            for t in ["71F", "71G"] { if b.iter().any(|s| has(s, &[t])) != has(r, &[t]) { e.req("D79"); } }
            // D21, D75 per transaction
            for s in b {
                let (f33, f32, f36) = (get(s, "33B"), get(s, "32B"), has(s, &["36"]));
                if let (Some(x), Some(y)) = (f33, f32) { if x.s("currency") == y.s("currency") && x.d("amount") == y.d("amount") { e.req("D21"); } }
                match (ccy(f33), ccy(f32)) { (Some(x), Some(y)) => if (x != y) != f36 { e.req("D75"); }, (None, _) => if f36 { e.req("D75"); }, _ => {} }
            }
            // D80 / C01: settlement amount vs sum, field 19
            let sum: i128 = b.iter().filter_map(|s| get(s, "32B").and_then(|f| f.d("amount"))).sum();
            if is104 {
                // C9: sequence C present: 32B(C) == sum -> 19 must not be present, != sum -> 19 must be present; C10: 19 == sum
                if let Some(c32) = get(r, "32B") { let equal = c32.d("amount") == Some(sum); if equal == has(r, &["19"]) { e.req("D80"); } }
                if let Some(f19) = get(r, "19") { if f19.d("amount") != Some(sum) { e.req("C01"); } }
            } else if !b.is_empty() {
                // MT107 C8 as documented: the sum is in 32B of C when there are no charges, else in field 19
                let charges = b.iter().any(|s| has(s, &["71F"]) || has(s, &["71G"]));
                if charges { match get(r, "19") { Some(f) => if f.d("amount") != Some(sum) { e.req("C01"); }, None => e.req("D80") } }
                else { if get(r, "32B").and_then(|f| f.d("amount")) != Some(sum) { e.req("D80"); } if has(r, &["19"]) { e.req("D80"); } }
            }
            // C02: currencies of 32B (B and C), 71G (B and C), 71F (B and C)
            // MT104 documents 32B, 71G and 71F each on their own; MT107: "32B and 71G must be the same across all sequences", 71F on its own
            let groups: &[&[&str]] = if is104 { &[&["32B"], &["71G"], &["71F"]] } else { &[&["32B", "71G"], &["71F"]] };
            for g in groups {
                let mut cs: BTreeSet<String> = BTreeSet::new();
                for t in g.iter() { cs.extend(b.iter().filter_map(|s| ccy(get(s, t)))); if let Some(c) = ccy(get(r, t)) { cs.insert(c); } }
                if cs.len() > 1 { e.req("C02"); }
            }
            if is104 {
                // C12 (C96)
                if rfdd {
                    if b.iter().any(|s| has(s, &["21E"]) || has(s, &CRED) || has(s, &F52) || has(s, &["71F"]) || has(s, &["71G"])) || has_c { e.req("C96"); }
                } else if has(r, &["21R"]) || !has_c { e.req("C96"); }
                // 23E code tables
                if let Some(f) = a23e { let k = code23e(f); if !["AUTH", "NAUT", "OTHR", "RFDD", "RTND"].contains(&k.as_str()) { e.req("T47"); } if f.has("additional_info") && k != "OTHR" { e.req("D81"); } }
                for s in b { if let Some(f) = get(s, "23E") { let k = code23e(f); if !["AUTH", "NAUT", "OTHR"].contains(&k.as_str()) { e.req("T47"); } if f.has("additional_info") && k != "OTHR" { e.req("D81"); } } }
            } else {
                for f in a23e.into_iter().chain(b.iter().filter_map(|s| get(s, "23E"))) { let k = code23e(f); if !["AUTH", "NAUT", "OTHR", "RTND"].contains(&k.as_str()) { e.req("T47"); } if f.has("additional_info") && k != "OTHR" { e.req("D81"); } }
            }
        }
        // -------------------------------------------------------------------------------- cheques, FI transfers
        "110" => {
            if v.seqs.len() > 10 { e.req("T10"); }
            let cs: BTreeSet<String> = v.seqs.iter().filter_map(|s| ccy(num(s, "32"))).collect();
            if cs.len() > 1 { e.req("C02"); }
        }
        "200" => {
            // T80: code words /REJT/ or /RETN/ in field 72
            if let Some(f) = get(r, "72") { for l in f.lines("information") { let u = l.trim().to_uppercase(); if u.starts_with("/REJT/") || u.starts_with("/RETN/") { e.req("T80"); } else if u.contains("REJT") || u.contains("RETN") { e.un("T80"); } } }
        }
        "202" => {
            if has(r, &F56) && !has(r, &F57) { e.req("C81"); }
            if let Some(b) = &v.seq_obj { if has(b, &F56) && !has(b, &F57) { e.req("C68"); } }
        }
        "205" => { if has(r, &F56) && !has(r, &F57) { e.req("C81"); } }
        "204" => {
            if v.seqs.len() > 10 { e.req("T10"); }
            let cs: BTreeSet<String> = v.seqs.iter().filter_map(|s| ccy(get(s, "32B"))).collect();
            if cs.len() > 1 { e.req("C02"); }
            if !v.seqs.is_empty() { let sum: i128 = v.seqs.iter().filter_map(|s| get(s, "32B").and_then(|f| f.d("amount"))).sum(); if get(r, "19").and_then(|f| f.d("amount")) != Some(sum) { e.req("C01"); } }
        }
        "210" => {
            if v.seqs.len() > 10 { e.req("T10"); }
            if v.seqs.iter().any(|s| has_num(s, "50") == has(s, &F52)) { e.req("C06"); }
            let cs: BTreeSet<String> = v.seqs.iter().filter_map(|s| ccy(get(s, "32B"))).collect();
            if cs.len() > 1 { e.req("C02"); }
        }
        "910" => { if !has_num(r, "50") && !has(r, &F52) { e.req("C06"); } }
        "920" => {
            for s in &v.seqs {
                let t = get(s, "12").and_then(|f| f.s("type_code")).unwrap_or_default();
                if !["940", "941", "942", "950"].contains(&t.as_str()) { e.req("T88"); }
                let fl: Vec<&FV> = all(s, "34F");
                if t == "942" && fl.is_empty() { e.req("C22"); }
                match fl.len() { 1 => if fl[0].has("indicator") { e.req("C23"); }, 2 => { if fl[0].s("indicator").as_deref() != Some("D") || fl[1].s("indicator").as_deref() != Some("C") { e.req("C23"); } if fl[0].s("currency") != fl[1].s("currency") { e.req("C40"); } } _ => {} }
            }
        }
        "935" => {
            if v.seqs.is_empty() || v.seqs.len() > 10 { e.req("T10"); }
            if v.seqs.iter().any(|s| has(s, &["23"]) == has(s, &["25"])) { e.req("C83"); }
            // field 23 / 37H content checks (T26, T51, T14) are judged only in their clear cases
            for s in &v.seqs {
                if let Some(f) = get(s, "23") { let _ = f; e.un("T26"); }
                for h in all(s, "37H") { if h.has("is_negative") && h.d("rate") == Some(0) { e.req("T14"); } }
            }
        }
        "940" | "941" | "942" | "950" => {
            // C27: first two characters of the currency codes are the same
            let tags: &[&str] = match mt { "940" => &["60F", "62F", "64", "65"], "941" => &["60F", "90D", "90C", "62F", "64", "65"], "942" => &["34F", "90D", "90C"], _ => &["60F", "60M", "62F", "62M", "64"] };
            let ps: BTreeSet<String> = r.iter().filter(|f| tags.contains(&f.tag.as_str())).filter_map(|f| f.s("currency")).map(|c| c.chars().take(2).collect()).collect();
            if ps.len() > 1 { e.req("C27"); }
            if mt == "942" {
                let fl: Vec<&FV> = all(r, "34F");
                match fl.len() { 1 => if fl[0].has("indicator") { e.req("C23"); }, 2 => if fl[0].s("indicator").as_deref() != Some("D") || fl[1].s("indicator").as_deref() != Some("C") { e.req("C23"); }, _ => {} }
            }
        }
        "192" | "292" => {
            if !has(r, &["79"]) && !v.extra_root_keys { e.req("C25"); }
            if mt == "192" { if let Some(f) = get(r, "79") { if let Some(l) = f.lines("information").first() { if let Some(rest) = l.strip_prefix('/') { let code: String = rest.split('/').next().unwrap_or("").to_string(); if code.len() == 4 { if !["AGNT", "AM09", "COVR", "CURR", "CUST", "CUTA", "DUPL", "FRAD", "TECH", "UPAY"].contains(&code.as_str()) { e.req("T47"); } } } } } }
        }
        "196" | "296" => { if has(r, &["79"]) && v.extra_root_keys { e.req("C31"); } }
        // rule-free types: 111 112 190 191 199 290 291 299 900 -> nothing may be reported
        _ => {}
    }
    e
}

/// every code the reference tables know for a type (anything else reported by the library is spurious)
pub fn known_codes(mt: &str) -> &'static [&'static str] {
    match mt {
        "101" => &["D54", "D60", "D61", "D62", "D68", "D64", "D65", "D98", "E54", "T47", "D66", "D67", "E46"],
        "103" => &["T36", "T48", "D97", "D98", "D67", "E46", "D75", "E01", "E02", "E06", "C81", "E16", "E17", "E13", "D50", "E15", "D51", "C02", "E18", "E44", "E45"],
        "104" => &["C75", "C76", "D73", "D77", "C82", "D79", "D21", "D75", "D80", "C01", "C02", "C96", "T47", "D81"],
        "107" => &["D86", "D73", "D77", "C82", "D79", "D21", "D75", "D80", "C01", "C02", "T47", "D81"],
        "110" => &["T10", "C02"], "200" => &["T80"], "202" => &["C81", "C68"], "205" => &["C81"], "204" => &["C01", "C02", "T10"], "210" => &["T10", "C06", "C02"],
        "910" => &["C06"], "920" => &["T88", "C22", "C23", "C40"], "935" => &["T10", "C83", "T26", "T51", "T14"], "940" => &["C24", "C27"], "941" | "950" => &["C27"], "942" => &["C27", "C23", "C24"],
        "192" => &["C25", "T47"], "292" => &["C25"], "196" | "296" => &["C31"],
        _ => &[],
    }
}
