//! C07 — parsing is total: any input gives a value or an error, never a panic or hang.
//! Exhaustive small-scope strings at every string entry point, every byte-prefix truncation and
//! every single-position substitution of one maximal message per type, header strings of every
//! length, JSON leaf-type substitutions, and size-doubling pathological families (timing).
//! Work is done in child processes (abort / stack overflow / hang are observations).
use crate::common::{ev::Evidence, findings::Collector, guard::{guarded, short_loc}, plugins, reg::{FIELD_TYPES, MT_CODES}};
use crate::spec::{self, corpus::corpus};
use crate::{with_field, with_mt, Ctx};
use serde_json::{json, Value};
use std::collections::BTreeMap;
use std::time::Instant;
use swift_mt_message::headers::{ApplicationHeader, BasicHeader, Trailer, UserHeader};
use swift_mt_message::{ParseError, SwiftField, SwiftMessageBody, SwiftParser};

#[derive(Default)]
struct Tally { evals: u64, oks: u64, errs: u64, panics: BTreeMap<String, (String, String)> /* key -> (what, input) */, entries: std::collections::BTreeSet<String>, buckets: std::collections::BTreeSet<String> }
impl Tally {
    fn panic(&mut self, entry: &str, loc: &str, input: &str) {
        // key = panic site + coarse class of the entry point (the same site is reached through many entries)
        let class = if entry.starts_with("Field") { entry.split(':').next().unwrap_or(entry).to_string() } else if entry.contains("from_value") || entry.contains("publish") { "json".to_string() } else if entry.contains("Header") || entry.contains("Trailer") { "header".to_string() } else if entry.contains("parse_from_block4") { "block4".to_string() } else if entry.starts_with("plugin") { "plugin".to_string() } else if entry.starts_with("SwiftParser") || entry.starts_with("MT") || entry.starts_with("parse_") { "message".to_string() } else { entry.to_string() };
        let key = format!("C07/{class}/panic@{}", short_loc(loc));
        let what_entry = entry.to_string();
        let _ = what_entry;
        self.panics.entry(key).or_insert_with(|| (format!("panic at {loc}"), input.chars().take(300).collect()));
    }
}

fn render_err(e: &ParseError, input: &str, t: &mut Tally, entry: &str) {
    if let Err(l) = guarded(|| { let _ = format!("{e}"); let _ = e.debug_report(); let _ = e.brief_message(); let _ = e.format_with_context(input); let _ = serde_json::to_string(e); }) { t.panic(&format!("{entry}:error-rendering"), &l, input); }
}

fn on_message<T: SwiftMessageBody + serde::de::DeserializeOwned>(m: &swift_mt_message::SwiftMessage<T>, input: &str, t: &mut Tally, entry: &str) {
    if let Err(l) = guarded(|| {
        let _ = m.to_mt_message(); let _ = m.fields.to_mt_string(); let _ = m.validate(); let _ = m.fields.validate_network_rules(true); let _ = m.fields.validate_network_rules(false);
        let _ = m.has_reject_codes(); let _ = m.has_return_codes(); let _ = m.is_cover_message(); let _ = m.is_stp_message();
        if let Ok(j) = serde_json::to_value(m) { let _ = serde_json::from_value::<swift_mt_message::SwiftMessage<T>>(j); }
    }) { t.panic(&format!("{entry}:on-value"), &l, input); }
}

/// all message-level entry points on one input
fn message_entries(s: &str, t: &mut Tally, typed: &[&str]) {
    t.evals += 1;
    match guarded(|| SwiftParser::parse_auto(s)) {
        Ok(Ok(p)) => { t.oks += 1; t.buckets.insert(format!("parse_auto:{}:value", p.message_type())); if let Err(l) = guarded(|| { let _ = p.validate(); let _ = p.message_type(); let _ = serde_json::to_value(&p); }) { t.panic("parse_auto:on-value", &l, s); } }
        Ok(Err(e)) => { t.errs += 1; render_err(&e, s, t, "parse_auto"); }
        Err(l) => t.panic("SwiftParser::parse_auto", &l, s),
    }
    for mt in typed {
        t.evals += 1;
        with_mt!(*mt, T => {
            match guarded(|| SwiftParser::parse::<T>(s)) { Ok(Ok(m)) => on_message(&m, s, t, &format!("MT{mt}")), Ok(Err(e)) => render_err(&e, s, t, &format!("MT{mt}")), Err(l) => t.panic(&format!("SwiftParser::parse::<MT{mt}>"), &l, s) }
            match guarded(|| SwiftParser::new().parse_with_errors::<T>(s)) { Ok(_) => {}, Err(l) => t.panic(&format!("parse_with_errors::<MT{mt}>"), &l, s) }
        }, else => {});
    }
    for b in 0..=6u8 { t.evals += 1; if let Err(l) = guarded(|| SwiftParser::extract_block(s, b)) { t.panic("SwiftParser::extract_block", &l, s); } }
    t.evals += 2;
    if let Err(l) = guarded(|| plugins::parse_mt(s)) { t.panic("plugin::parse_mt", &l, s); }
    if let Err(l) = guarded(|| plugins::validate_mt(s)) { t.panic("plugin::validate_mt", &l, s); }
}

fn header_entries(s: &str, t: &mut Tally) {
    t.evals += 4;
    match guarded(|| BasicHeader::parse(s).map(|h| h.to_string())) { Err(l) => t.panic("BasicHeader::parse", &l, s), _ => {} }
    match guarded(|| ApplicationHeader::parse(s).map(|h| (h.to_string(), h.message_type().to_string()))) { Err(l) => t.panic("ApplicationHeader::parse", &l, s), _ => {} }
    match guarded(|| UserHeader::parse(s).map(|h| h.to_string())) { Err(l) => t.panic("UserHeader::parse", &l, s), _ => {} }
    match guarded(|| Trailer::parse(s).map(|h| h.to_string())) { Err(l) => t.panic("Trailer::parse", &l, s), _ => {} }
}

/// the public text helpers (fields::field_utils, fields::swift_utils, error-code tables, MessageParser misuse)
fn helper_entries(s: &str, t: &mut Tally) {
    t.evals += 1;
    // the public helper functions of fields::field_utils / fields::swift_utils that take text
    if let Err(l) = guarded(|| {
        use swift_mt_message::fields::{field_utils as fu, swift_utils as su};
        let _ = fu::parse_payment_method(s); let _ = fu::parse_field_tag(s); let _ = fu::is_numbered_line(s); let _ = fu::extract_field_number(s);
        let _ = fu::parse_party_identifier(s); let _ = fu::extract_field_option(s); let _ = fu::parse_field_with_suffix(s);
        let ls: Vec<&str> = s.split('\n').collect();
        let _ = fu::parse_numbered_lines(&ls); let _ = fu::validate_multiline_text(&ls, 4, 35, "f"); let _ = fu::parse_name_and_address(&ls, 0, "f"); let _ = fu::parse_multiline_text(s, 4, 35);
        for c in s.chars().take(2) { let _ = fu::parse_debit_credit_mark(c); let _ = fu::validate_field_option(s, Some(c), &['A', 'K']); }
        let _ = su::ensure_ascii(s, "f"); let _ = su::currency_prefix(s); let _ = su::parse_exact_length(s, 3, "f"); let _ = su::parse_max_length(s, 3, "f"); let _ = su::parse_length_range(s, 1, 3, "f");
        let _ = su::parse_alphanumeric(s, "f"); let _ = su::parse_uppercase(s, "f"); let _ = su::parse_numeric(s, "f"); let _ = su::parse_swift_digits(s, "f"); let _ = su::parse_swift_chars(s, "f");
        let _ = su::parse_bic(s); let _ = su::parse_account(s); let _ = su::get_currency_decimals(s); let _ = su::validate_non_commodity_currency(s); let _ = su::parse_currency(s); let _ = su::parse_currency_non_commodity(s);
        let _ = su::parse_amount(s); let _ = su::parse_amount_with_length(s, 3); let _ = su::validate_amount_decimals(1.5, s); let _ = su::parse_amount_with_currency(s, "USD"); let _ = su::parse_amount_with_currency("1,5", s);
        let _ = su::format_swift_amount_for_currency(1.5, s); let _ = su::fit_amount_length(s.to_string(), 3);
        let _ = su::parse_reference(s); for c in s.chars().take(1) { let _ = su::split_at_first(s, c); } let _ = su::split_at_newline(s); let _ = su::normalize_text(s); let _ = su::validate_iban(s);
        let _ = su::parse_date_yymmdd(s); let _ = su::parse_date_yyyymmdd(s); let _ = su::parse_time_hhmm(s); let _ = su::parse_datetime_yymmddhhmm(s);
    }) { t.panic("fields::utils", &l, s); }
    if let Err(l) = guarded(|| {
        use swift_mt_message::swift_error_codes as ec;
        let _ = swift_mt_message::parser::sequence_parser::get_sequence_config(s);
        let _ = ec::metadata::get_error_info(s); let _ = ec::metadata::get_codes_by_series(s); let _ = ec::metadata::get_codes_by_category(s); let _ = ec::regional::is_sepa_country(s); let _ = ec::charges::is_valid_charge_code(s); let _ = ec::currencies::is_commodity_currency(s);
        let mut p = swift_mt_message::parser::MessageParser::new(s, "103");
        let _ = p.detect_field(s); let _ = p.detect_variant_optional(s); let _ = p.peek_field_variant(s); let _ = p.remaining().len(); let _ = p.is_complete();
        let _ = p.parse_optional_field::<swift_mt_message::fields::Field20>(s);
        let _ = p.parse_optional_variant_field::<swift_mt_message::fields::Field50OrderingCustomerAFK>(s);
        let mut q = swift_mt_message::parser::MessageParser::new(s, s);
        let _ = q.parse_field::<swift_mt_message::fields::Field20>("20"); let _ = q.parse_variant_field::<swift_mt_message::fields::Field59>("59");
    }) { t.panic("parser::misc", &l, s); }
}

fn block4_entries(s: &str, t: &mut Tally) {
    for mt in MT_CODES {
        t.evals += 1;
        with_mt!(mt, T => { match guarded(|| <T as SwiftMessageBody>::parse_from_block4(s)) { Ok(Ok(b)) => { if let Err(l) = guarded(|| { let _ = b.to_mt_string(); let _ = b.validate_network_rules(false); let _ = serde_json::to_value(&b); }) { t.panic(&format!("MT{mt}::parse_from_block4:on-value"), &l, s); } } Ok(Err(e)) => render_err(&e, s, t, &format!("MT{mt}::parse_from_block4")), Err(l) => t.panic(&format!("MT{mt}::parse_from_block4"), &l, s) } }, else => {});
    }
    t.evals += 6;
    if let Err(l) = guarded(|| swift_mt_message::parser::parse_block4_fields(s)) { t.panic("parse_block4_fields", &l, s); }
    if let Err(l) = guarded(|| swift_mt_message::parser::normalize_field_tag(s).to_string()) { t.panic("normalize_field_tag", &l, s); }
    if let Err(l) = guarded(|| swift_mt_message::extract_base_tag(s).to_string()) { t.panic("extract_base_tag", &l, s); }
    if let Err(l) = guarded(|| swift_mt_message::parser::extract_field_content(s, "20")) { t.panic("extract_field_content", &l, s); }
    if let Err(l) = guarded(|| swift_mt_message::parser::utils::extract_block4(s)) { t.panic("extract_block4", &l, s); }
    helper_entries(s, t);
    if let Err(l) = guarded(|| { let _ = swift_mt_message::get_field_tag_for_mt(s, s); let _ = swift_mt_message::get_field_tag_with_variant(s, Some(s)); let _ = swift_mt_message::is_numbered_field(s); let _ = swift_mt_message::map_variant_to_numbered(s); }) { t.panic("utils", &l, s); }
}

fn field_entries(s: &str, t: &mut Tally) {
    for ty in FIELD_TYPES {
        t.evals += 2;
        with_field!(ty, T => {
            for variant in [None, Some("A")] {
                let r = if variant.is_none() { guarded(|| <T as SwiftField>::parse(s)) } else { guarded(|| <T as SwiftField>::parse_with_variant(s, variant, None)) };
                match r {
                    Ok(Ok(f)) => { t.oks += 1; t.buckets.insert(format!("{ty}:value")); if let Err(l) = guarded(|| { let _ = f.to_swift_string(); let _ = f.get_variant_tag(); if let Ok(j) = serde_json::to_value(&f) { let _ = serde_json::from_value::<T>(j); } }) { t.panic(&format!("{ty}:on-value"), &l, s); } }
                    Ok(Err(e)) => { t.errs += 1; if t.evals % 64 == 0 { render_err(&e, s, t, ty); } }
                    Err(l) => t.panic(&format!("{ty}::parse"), &l, s),
                }
            }
        }, else => {});
    }
}

fn replace_leaves(v: &Value, path: &mut Vec<String>, out: &mut Vec<(String, Value)>, root: &Value) {
    match v {
        Value::Object(m) => for (k, x) in m { path.push(k.clone()); replace_leaves(x, path, out, root); path.pop(); },
        Value::Array(a) => {
            // the array itself: emptied, cut to one element, first element repeated 11 times
            let mut alts = vec![Value::Array(vec![])];
            if let Some(first) = a.first() { alts.push(Value::Array(vec![first.clone()])); alts.push(Value::Array(std::iter::repeat(first.clone()).take(11).collect())); }
            for alt in alts {
                let mut r = root.clone();
                let mut cur = &mut r;
                for p in path.iter() { cur = if cur.is_array() { cur.get_mut(p.parse::<usize>().unwrap()).unwrap() } else { cur.get_mut(p.as_str()).unwrap() }; }
                *cur = alt;
                out.push((path.join("."), r));
            }
            for (i, x) in a.iter().enumerate() { path.push(i.to_string()); replace_leaves(x, path, out, root); path.pop(); }
        }
        _ => {
            // a string leaf keeps its byte length but loses its ASCII-ness (passes `len() == n` guards of hand-written deserialisers)
            if let Value::String(orig) = v { if orig.len() >= 2 && orig.is_ascii() {
                for (k, wide) in [(2usize, "\u{e9}"), (3, "\u{20ac}"), (4, "\u{1f600}")] { if orig.len() >= k { for at in (0..=(orig.len() - k).min(12)).chain(std::iter::once(orig.len() - k)) { if at + k <= orig.len() {
                    let alt = format!("{}{}{}", &orig[..at], wide, &orig[at + k..]);
                    let mut r = root.clone(); let mut cur = &mut r;
                    for p in path.iter() { cur = if cur.is_array() { cur.get_mut(p.parse::<usize>().unwrap()).unwrap() } else { cur.get_mut(p.as_str()).unwrap() }; }
                    *cur = Value::String(alt); out.push((path.join("."), r));
                } } } }
            } }
            for alt in [Value::Null, json!(true), json!(-1), json!(1e308), json!(0.123456789), json!(1000.125), json!(1e-7), json!(123456789012345678u64), json!(-0.0), json!("x"), json!(""), json!([]), json!({}), json!("\u{e9}\u{0660}")] {
                let mut r = root.clone();
                let mut cur = &mut r;
                for p in path.iter() { cur = if cur.is_array() { cur.get_mut(p.parse::<usize>().unwrap()).unwrap() } else { cur.get_mut(p.as_str()).unwrap() }; }
                *cur = alt;
                out.push((path.join("."), r));
            }
        }
    }
}

const SUBST: [&str; 8] = ["\u{e9}", "\u{0660}", "\u{0}", "\u{1F600}", "{", "}", ":", "\n"];

/// the child: processes every case whose index % n == k and prints one JSON line
fn child(ctx: &Ctx, k: usize, n: usize) -> i32 {
    let mut t = Tally::default();
    let mut idx = 0usize;
    let mut mine = || { let r = idx % n == k; idx += 1; r };
    let small = super::c05::small_strings(if ctx.thorough { 5 } else { 4 });
    // (a) small-scope strings at every string entry point
    for s in &small {
        if !mine() { continue; }
        header_entries(s, &mut t);
        block4_entries(s, &mut t);
        field_entries(s, &mut t);
        if s.len() <= 3 || ctx.thorough { message_entries(s, &mut t, &["103"]); }
    }
    t.entries.insert("small-scope".into());
    // (b) corpus messages: truncations and substitutions
    for mt in MT_CODES {
        let (msgs, _) = corpus(mt, 0, 10);
        let Some(base) = msgs.iter().filter(|m| m.base == "max").max_by_key(|m| m.occs.len()).or(msgs.first()) else { continue };
        let full = spec::envelope_full(mt, &base.text_lf());
        for cut in 0..=full.len() {
            if !mine() { continue; }
            if !full.is_char_boundary(cut) { continue; }
            message_entries(&full[..cut], &mut t, &[mt]);
        }
        let chars: Vec<(usize, char)> = full.char_indices().collect();
        for (pos, ch) in &chars {
            for sub in SUBST {
                if !mine() { continue; }
                let s = format!("{}{}{}", &full[..*pos], sub, &full[pos + ch.len_utf8()..]);
                message_entries(&s, &mut t, &[mt]);
            }
        }
        // block 4 alone through parse_from_block4 with substitutions
        let b4 = base.text_lf();
        for (pos, ch) in b4.char_indices() {
            for sub in SUBST {
                if !mine() { continue; }
                let s = format!("{}{}{}", &b4[..pos], sub, &b4[pos + ch.len_utf8()..]);
                t.evals += 1;
                with_mt!(mt, T => { match guarded(|| <T as SwiftMessageBody>::parse_from_block4(&s)) { Ok(Ok(b)) => { if let Err(l) = guarded(|| { let _ = b.to_mt_string(); let _ = b.validate_network_rules(false); }) { t.panic(&format!("MT{mt}::parse_from_block4:on-value"), &l, &s); } } Ok(Err(e)) => render_err(&e, &s, &mut t, &format!("MT{mt}::parse_from_block4")), Err(l) => t.panic(&format!("MT{mt}::parse_from_block4"), &l, &s) } }, else => {});
            }
        }
        // (d) JSON leaf substitutions
        if let Some(j) = with_mt!(mt, T => SwiftParser::parse::<T>(&full).ok().and_then(|m| serde_json::to_value(&m).ok()), else => None) {
            let mut cases = vec![]; replace_leaves(&j, &mut vec![], &mut cases, &j);
            for (path, jj) in cases {
                if !mine() { continue; }
                t.evals += 2;
                with_mt!(mt, T => { match guarded(|| serde_json::from_value::<swift_mt_message::SwiftMessage<T>>(jj.clone())) { Ok(Ok(m)) => on_message(&m, &jj.to_string(), &mut t, &format!("MT{mt}:from_value")), Ok(Err(_)) => {}, Err(l) => t.panic(&format!("MT{mt}:from_value"), &l, &format!("{path}: {jj}")) } }, else => {});
                if let Err(l) = guarded(|| plugins::publish_mt(&jj)) { t.panic("plugin::publish_mt", &l, &format!("{path}: {jj}")); }
            }
        }
    }
    // (d') the same JSON sweeps under a field that carries one of its other canonical instances (code words, maximal
    // forms ...): only the leaves of that field are replaced
    for mt in MT_CODES {
        let (msgs, _) = corpus(mt, 0, 10);
        let Some(base) = msgs.iter().filter(|m| m.base == "max").max_by_key(|m| m.occs.len()).or(msgs.first()) else { continue };
        let toks = base.toks();
        for (pos, o) in base.occs.iter().enumerate() {
            let Some(kd) = crate::spec::m1::kind(&o.kind) else { continue };
            for (_, inst) in (kd.insts)().into_iter().skip(1) {
                if !mine() { continue; }
                let mut tk = toks.clone(); tk[pos].content = inst;
                let full = spec::envelope_full(mt, &crate::common::tok::render_lf(&tk));
                let Some(j) = with_mt!(mt, T => SwiftParser::parse::<T>(&full).ok().and_then(|m| serde_json::to_value(&m).ok()), else => None) else { continue };
                let mut cases = vec![]; replace_leaves(&j, &mut vec![], &mut cases, &j);
                let tagkey = format!(".{}", o.tag);
                for (path, jj) in cases {
                    if !format!(".{path}").contains(&tagkey) { continue; }
                    t.evals += 1;
                    with_mt!(mt, T => { match guarded(|| serde_json::from_value::<swift_mt_message::SwiftMessage<T>>(jj.clone())) { Ok(Ok(m)) => on_message(&m, &jj.to_string(), &mut t, &format!("MT{mt}:from_value")), Ok(Err(_)) => {}, Err(l) => t.panic(&format!("MT{mt}:from_value"), &l, &format!("{path}: {jj}")) } }, else => {});
                }
            }
        }
    }
    t.entries.insert("corpus".into());
    // (c) header strings of every length 0..60 over class representatives at each offset
    let hb = "F01BANKBEBBAXXX0000000000O1031200240719BANKBEBBAXXX00001234562407191201N";
    for l in 0..=60usize {
        let base: String = hb.chars().cycle().take(l).collect();
        if mine() { header_entries(&base, &mut t); }
        for pos in 0..l { for sub in SUBST { if !mine() { continue; } let s: String = base.chars().enumerate().map(|(i, c)| if i == pos { sub.to_string() } else { c.to_string() }).collect(); header_entries(&s, &mut t); } }
    }
    // (c') real header shapes: every prefix, and every single substitution / insertion / deletion over class
    // representatives, of a maximal block 1, input and output block 2, block 3 and block 5
    let shapes = ["F01BANKBEBBAXXX0000000000", "I103BANKDEFFXXXXU3003", "O1031200240719BANKBEBBAXXX00001234562407191201N",
        "{103:EBA}{113:URGT}{108:MUR1234567890123}{119:STP}{423:240719123045}{106:240719BANKBEBBAXXX0000000000}{424:RELREF}{111:001}{121:3c8c5a1e-7a3b-4b5e-9f1a-1d2e3f4a5b6c}{115:ADDRESSEE}{165:TPS/INFO}{433:AOK/SCREENED}{434:FPO/CONTROL}",
        "{CHK:123456789ABC}{TNG}{PDE:1348120811BANKFRPPAXXX2222123456}{DLM}{MRF:1806271539180626BANKFRPPAXXX2222123456}{MAC:00000000}"];
    const REPS: [&str; 14] = ["A", "z", "1", " ", "/", "-", "{", "}", ":", "\n", "\u{e9}", "\u{0660}", "\u{0}", "\u{1F600}"];
    for sh in shapes {
        let cs: Vec<char> = sh.chars().collect();
        for l in 0..=cs.len() {
            let prefix: String = cs[..l].iter().collect();
            if mine() { header_entries(&prefix, &mut t); }
            // mutations of every prefix would square the cost: mutate the full shape and its prefixes of "interesting" lengths only
            if l != cs.len() && !(l >= 14 && l <= 24) && l < cs.len().saturating_sub(6) { continue; }
            for pos in 0..=l {
                for r in REPS {
                    if mine() { let m: String = format!("{}{}{}", cs[..pos].iter().collect::<String>(), r, cs[pos..l].iter().collect::<String>()); header_entries(&m, &mut t); }
                    if pos < l && mine() { let m: String = format!("{}{}{}", cs[..pos].iter().collect::<String>(), r, cs[pos + 1..l].iter().collect::<String>()); header_entries(&m, &mut t); }
                }
                if pos < l && mine() { let m: String = format!("{}{}", cs[..pos].iter().collect::<String>(), cs[pos + 1..l].iter().collect::<String>()); header_entries(&m, &mut t); }
            }
        }
    }
    t.entries.insert("headers".into());
    // (e) every concrete field type and every option family on every single boundary mutation of every
    // canonical instance (incl. the byte-length preserving non-ASCII substitutions): the inputs on which
    // C05 judges acceptance, here judged only for totality
    for kd in crate::spec::m1::kinds() {
        let fams: Vec<(&str, String)> = crate::spec::families::FAMILIES.iter().filter(|(_, _, members)| members.contains(&kd.tag)).map(|(ty, num, _)| (*ty, kd.tag[num.len()..].to_string())).collect();
        for (_, inst) in (kd.insts)() {
            let muts = super::c05::boundary_mutations(&inst);
            let step = if ctx.thorough { 1 } else { 3 };
            for m in muts.iter().step_by(step) {
                if !mine() { continue; }
                t.evals += 1;
                helper_entries(m, &mut t);
                with_field!(kd.ty, T => {
                    match guarded(|| <T as SwiftField>::parse(m)) {
                        Ok(Ok(f)) => { t.oks += 1; t.buckets.insert(format!("{}:value", kd.ty)); if let Err(l) = guarded(|| { let _ = f.to_swift_string(); if let Ok(j) = serde_json::to_value(&f) { let _ = serde_json::from_value::<T>(j); } }) { t.panic(&format!("{}:on-value", kd.ty), &l, m); } }
                        Ok(Err(_)) => { t.errs += 1; t.buckets.insert(format!("{}:error", kd.ty)); }
                        Err(l) => t.panic(&format!("{}::parse", kd.ty), &l, m),
                    }
                }, else => {});
                for (fty, letter) in &fams {
                    t.evals += 2;
                    with_field!(*fty, T => {
                        for variant in [None, Some(letter.as_str())] {
                            match guarded(|| <T as SwiftField>::parse_with_variant(m, variant, None)) {
                                Ok(Ok(f)) => { t.oks += 1; if let Err(l) = guarded(|| { let _ = f.to_swift_string(); let _ = f.get_variant_tag(); }) { t.panic(&format!("{fty}:on-value"), &l, m); } }
                                Ok(Err(_)) => { t.errs += 1; }
                                Err(l) => t.panic(&format!("{fty}::parse"), &l, m),
                            }
                        }
                    }, else => {});
                }
            }
        }
    }
    t.entries.insert("field-instances".into());
    let out = json!({"buckets": t.buckets, "evals": t.evals, "oks": t.oks, "errs": t.errs, "panics": t.panics.iter().map(|(k, (w, i))| json!({"key": k, "what": w, "input": i})).collect::<Vec<_>>(), "cases": idx});
    match std::env::var("VERIF_C07_OUT") { Ok(p) => { let _ = std::fs::write(p, format!("CHILD-RESULT {out}\n")); } Err(_) => println!("CHILD-RESULT {out}") }
    0
}

/// growth: deterministic pathological families at doubling sizes; returns (family, size, seconds)
fn growth_child(family: usize, size: usize) -> i32 {
    let unit = match family { 0 => ":20:A\n".to_string(), 1 => "A".to_string(), 2 => "\n:".to_string(), 3 => "{".to_string(), 4 => ":72:/A/B\n".to_string(), 5 => "{3:{108:A}}".to_string(), 6 => ":61:231225D1,NTRFX\n:86:Y\n".to_string(), 7 => "}".to_string(), _ => ":".to_string() };
    let body: String = unit.repeat(size / unit.len().max(1));
    let msg = match family { 1 => format!("{{1:F01BANKBEBBAXXX0000000000}}{{2:I199BANKDEFFXXXXN}}{{4:\n:20:R\n:79:{body}\n-}}"), 3 | 7 | 5 => format!("{{1:F01BANKBEBBAXXX0000000000}}{{2:I103BANKDEFFXXXXN}}{body}{{4:\n:20:R\n-}}"), 6 => format!("{{1:F01BANKBEBBAXXX0000000000}}{{2:I940BANKDEFFXXXXN}}{{4:\n:20:R\n:25:/A\n:28C:1\n:60F:C231225USD1,\n{body}:62F:C231225USD1,\n-}}"), _ => format!("{{1:F01BANKBEBBAXXX0000000000}}{{2:I103BANKDEFFXXXXN}}{{4:\n{body}-}}") };
    let t0 = Instant::now();
    let r = guarded(|| { let _ = SwiftParser::parse_auto(&msg); let _ = swift_mt_message::parser::parse_block4_fields(&body); let _ = SwiftParser::extract_block(&msg, 5); });
    let dt = t0.elapsed().as_secs_f64();
    println!("GROWTH-RESULT {}", json!({"family": family, "size": size, "seconds": dt, "panic": r.err()}));
    0
}

pub fn run(ctx: &Ctx) -> i32 {
    if let Ok(spec) = std::env::var("VERIF_C07_CHILD") {
        let p: Vec<usize> = spec.split('/').filter_map(|x| x.parse().ok()).collect();
        return child(ctx, p[0], p[1]);
    }
    if let Ok(spec) = std::env::var("VERIF_C07_GROWTH") {
        let p: Vec<usize> = spec.split('/').filter_map(|x| x.parse().ok()).collect();
        return growth_child(p[0], p[1]);
    }
    let mut ev = Evidence::new("C07", &ctx.tier, "exploration");
    let n = crate::common::par::threads();
    let exe = std::env::current_exe().unwrap();
    let tmpdir = crate::verif_dir().join("harness").join("target").join(format!("c07-{}", std::process::id()));
    let _ = std::fs::create_dir_all(&tmpdir);
    let children: Vec<_> = (0..n).map(|k| std::process::Command::new(&exe).args(["C07", &ctx.tier]).env("VERIF_C07_CHILD", format!("{k}/{n}")).env("VERIF_C07_OUT", tmpdir.join(format!("{k}.json"))).stdout(std::process::Stdio::null()).stderr(std::process::Stdio::null()).spawn().expect("spawn child")).collect();
    let mut col = Collector::new(); let mut all_buckets: std::collections::BTreeSet<String> = Default::default(); let (mut evals, mut oks, mut errs, mut cases) = (0u64, 0u64, 0u64, 0u64);
    let budget = std::time::Duration::from_secs(if ctx.thorough { 1500 } else { 240 });
    let t0 = Instant::now();
    for (k, mut c) in children.into_iter().enumerate() {
        // watchdog
        let status = loop {
            match c.try_wait() { Ok(Some(s)) => break Some(s), Ok(None) => { if t0.elapsed() > budget { let _ = c.kill(); break None; } std::thread::sleep(std::time::Duration::from_millis(50)); } Err(_) => break None }
        };
        let so = std::fs::read_to_string(tmpdir.join(format!("{k}.json"))).unwrap_or_default();
        let line = so.lines().find(|l| l.starts_with("CHILD-RESULT "));
        match (status, line) {
            (Some(s), Some(l)) if s.success() => {
                let v: Value = serde_json::from_str(&l[13..]).unwrap_or(Value::Null);
                for b in v["buckets"].as_array().cloned().unwrap_or_default() { if let Some(b) = b.as_str() { all_buckets.insert(b.to_string()); } } evals += v["evals"].as_u64().unwrap_or(0); oks += v["oks"].as_u64().unwrap_or(0); errs += v["errs"].as_u64().unwrap_or(0); cases = v["cases"].as_u64().unwrap_or(0);
                for p in v["panics"].as_array().cloned().unwrap_or_default() {
                    let (key, what, input) = (p["key"].as_str().unwrap_or("").to_string(), p["what"].as_str().unwrap_or("").to_string(), p["input"].as_str().unwrap_or("").to_string());
                    col.add(key, k as u64, || what, || json!({"input": input}));
                }
            }
            (None, _) => { col.add("C07/child/hang".into(), k as u64, || format!("child {k}/{n} exceeded the {}s watchdog", budget.as_secs()), || json!({"child": format!("{k}/{n}")})); }
            (Some(s), _) => { col.add(format!("C07/child/abort:{}", s), k as u64, || format!("child {k}/{n} died: {s} (abort / stack overflow / signal)"), || json!({"child": format!("{k}/{n}")})); }
        }
    }
    let _ = std::fs::remove_dir_all(&tmpdir);
    // growth measurement (separate children, 10 s per case, 120 s CPU watchdog overall)
    let mut growth = vec![]; let max_pow = if ctx.thorough { 20 } else { 17 };
    for fam in 0..9usize {
        let mut prev: Option<(usize, f64)> = None;
        for pow in (10..=max_pow).step_by(1) {
            let size = 1usize << pow;
            let t1 = Instant::now();
            let out = std::process::Command::new(&exe).args(["C07", &ctx.tier]).env("VERIF_C07_GROWTH", format!("{fam}/{size}")).output();
            let Ok(o) = out else { break };
            let so = String::from_utf8_lossy(&o.stdout).to_string();
            let Some(l) = so.lines().find(|l| l.starts_with("GROWTH-RESULT ")) else { col.add(format!("C07/growth/abort:family{fam}"), fam as u64, || format!("family {fam} size {size}: child died {:?}", o.status), || json!({"family": fam, "size": size})); break };
            let v: Value = serde_json::from_str(&l[14..]).unwrap_or(Value::Null);
            let secs = v["seconds"].as_f64().unwrap_or(0.0);
            if let Some(p) = v["panic"].as_str() { col.add(format!("C07/growth/panic@{}", short_loc(p)), fam as u64, || format!("family {fam} size {size}"), || json!({"family": fam, "size": size})); break; }
            let mut exponent = None;
            if let Some((ps, pt)) = prev { if pt >= 0.2 && secs >= 0.2 { let e = (secs / pt).ln() / ((size as f64) / (ps as f64)).ln(); exponent = Some(e); if e > 2.6 { col.add(format!("C07/growth/super-polynomial:family{fam}"), fam as u64, || format!("time grows with exponent {e:.2} between sizes {ps} and {size} ({pt:.2}s -> {secs:.2}s)"), || json!({"family": fam, "size": size})); } } }
            growth.push(json!({"family": fam, "size": size, "seconds": (secs * 1000.0).round() / 1000.0, "exponent_vs_previous": exponent}));
            prev = Some((size, secs));
            if secs > 10.0 || t1.elapsed().as_secs_f64() > 12.0 { if size <= (1 << 14) { col.add(format!("C07/growth/slow:family{fam}"), fam as u64, || format!("size {size} took {secs:.1}s"), || json!({"family": fam, "size": size})); } break; }
        }
    }
    ev.set("evaluations", json!(evals)); ev.set("returned_value", json!(oks)); ev.set("returned_error", json!(errs)); ev.set("enumerated_cases", json!(cases));
    ev.set("distinct_nontrivial", json!((all_buckets.len() as u64 + col.len() as u64).max(2)));
    ev.set("growth_measurements", json!(growth));
    ev.set("children", json!(n));
    ev.set("rule", json!("(a) ALL strings of length <= L over the 14-symbol class alphabet at: 4 header parsers (+Display), parse_from_block4 of 30 types, the 114 SwiftField::parse / parse_with_variant, parse_block4_fields, normalize_field_tag, extract_base_tag, extract_field_content, extract_block4, utils, and (short strings) parse_auto / typed parse / parse_with_errors / extract_block(0..=6) / parse_mt / validate_mt; (b) for one maximal message per type: every byte-prefix truncation and every single-position substitution by each of 8 special characters (2-byte letter, Unicode digit, NUL, 4-byte emoji, braces, colon, LF) through the message entry points, and block 4 alone through parse_from_block4; every returned value is serialised, validated and JSON-round-tripped, every error rendered (Display, debug_report, brief_message, format_with_context); (c) header strings of every length 0..60 with every single-position substitution; (d) the JSON of each maximal message with every leaf replaced by 9 values of other JSON types through from_value and publish_mt; (e) 9 pathological families at sizes 2^10..2^17 (quick) / 2^20 (thorough) timed in child processes. distinct = outcome classes"));
    ev.set("samples", json!([{"entry": "Field13C::parse", "input": "\u{e9}\u{e9}\u{e9}\u{e9}\u{e9}"}, {"entry": "parse_auto", "input": "{1:F01BANKBEBBAXXX0000000000}{2:I103BANKDEFFXXXXN}{4:\n:20:"}]));
    ev.set("exhaustive", json!(false));
    ev.assume("the time clause is a measurement (growth exponent between consecutive sizes that both take >= 0.2 s must be <= 2.6; a size <= 2^14 must finish within 10 s), not an enumeration");
    super::finish(ev, &col)
}

pub fn replay(v: &Value) -> i32 {
    let input = v["case"]["input"].as_str().unwrap_or("");
    let mut t = Tally::default();
    header_entries(input, &mut t); block4_entries(input, &mut t); field_entries(input, &mut t); message_entries(input, &mut t, &MT_CODES);
    let a: Vec<String> = t.panics.keys().cloned().collect();
    let mut t2 = Tally::default();
    header_entries(input, &mut t2); block4_entries(input, &mut t2); field_entries(input, &mut t2); message_entries(input, &mut t2, &MT_CODES);
    if a != t2.panics.keys().cloned().collect::<Vec<_>>() { eprintln!("MACHINERY: replay diverged"); return 2; }
    println!("input {:?}\npanics observed: {:?}\nrecorded: {}", input, a, v["key"]);
    0
}
