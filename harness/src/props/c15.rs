//! C15 — shipped scenarios always generate valid, exactly round-trippable messages.
//!
//! The only nondeterminism of `generate_mt` is (a) the words drawn from `rand::rng()` (ThreadRng) by
//! datafake-rs and fake, and (b) the clock read by datafake's "date" generator. Both sit behind seams
//! (harness/vendor/rand, harness/vendor/datafake-rs; see vendor-patch/make_vendor.sh), so a run is a
//! function of (scenario file, draw schedule, clock). The explorer enumerates, per scenario file:
//!   * base schedules: all-min, all-max, K linear-congruential streams;
//!   * every single deviation from a base schedule: draw i replaced by each value of a quantile
//!     alphabet (so every outcome of every pick among <= Q alternatives is taken at every draw site);
//!   * (thorough) every pair of {min,max} deviations at two draw points;
//!   * the clock alphabet (month ends, leap day, year ends; thorough: every day of 2024..2029).
//! On every run the whole chain Generate -> Publish -> Validate -> Parse is executed on the real plugin
//! code and the oracle is: all four succeed, `valid` is true with no error, parsed JSON == generated
//! JSON (null == absent, numbers compared exactly, no rounding).
//! Ownership of nondeterminism is proven per scenario by running the first schedule twice and
//! comparing the generated JSON byte for byte; a divergence is a machinery error (exit 2).
use crate::common::{ev::Evidence, findings::Collector, guard::{guarded, short_loc}, par::par_for, plugins};
use crate::Ctx;
use serde_json::{json, Value};
use std::cell::Cell;
use std::rc::Rc;

const DRAW_CAP: usize = 200_000;

#[derive(Clone, Debug, PartialEq)]
pub enum Base { Min, Max, Lcg(u64) }

#[derive(Clone, Debug)]
pub struct Sched { pub base: Base, pub devs: Vec<(usize, u64)>, pub clock: i64 }

impl Sched {
    pub fn to_json(&self) -> Value {
        json!({"base": match &self.base { Base::Min => "min".to_string(), Base::Max => "max".to_string(), Base::Lcg(s) => format!("lcg:{s}") },
               "devs": self.devs.iter().map(|(i, v)| json!([i, format!("{v:#x}")])).collect::<Vec<_>>(), "clock": self.clock})
    }
    pub fn from_json(v: &Value) -> Option<Sched> {
        let b = v.get("base")?.as_str()?;
        let base = match b { "min" => Base::Min, "max" => Base::Max, x => Base::Lcg(x.strip_prefix("lcg:")?.parse().ok()?) };
        let mut devs = vec![];
        for d in v.get("devs")?.as_array()? {
            let i = d.get(0)?.as_u64()? as usize;
            let x = u64::from_str_radix(d.get(1)?.as_str()?.trim_start_matches("0x"), 16).ok()?;
            devs.push((i, x));
        }
        Some(Sched { base, devs, clock: v.get("clock")?.as_i64()? })
    }
}

/// the value of draw i of a base stream (a pure function of i, so schedules are replayable and a
/// deviation never shifts the rest of the stream)
fn base_word(b: &Base, i: usize) -> u64 {
    match b {
        Base::Min => 0,
        Base::Max => u64::MAX,
        Base::Lcg(s) => {
            // splitmix64 of (seed, i)
            let mut z = (*s).wrapping_mul(0x9E3779B97F4A7C15).wrapping_add((i as u64 + 1).wrapping_mul(0xBF58476D1CE4E5B9));
            z = (z ^ (z >> 30)).wrapping_mul(0xBF58476D1CE4E5B9);
            z = (z ^ (z >> 27)).wrapping_mul(0x94D049BB133111EB);
            z ^ (z >> 31)
        }
    }
}

/// run f with the two seams installed; returns (result, number of draws consumed)
fn with_sched<T>(s: &Sched, f: impl FnOnce() -> T) -> (Result<T, String>, usize) {
    let n = Rc::new(Cell::new(0usize));
    let n2 = n.clone();
    let base = s.base.clone();
    let devs = s.devs.clone();
    rand::rngs::verif_set_source(Some(Box::new(move || {
        let i = n2.get();
        n2.set(i + 1);
        if i >= DRAW_CAP { panic!("verif: draw cap reached"); }
        for (k, v) in &devs { if *k == i { return *v; } }
        base_word(&base, i)
    })));
    datafake_rs::verif_clock::set(Some(s.clock));
    let r = guarded(f);
    rand::rngs::verif_set_source(None);
    datafake_rs::verif_clock::set(None);
    (r, n.get())
}

fn strip_nulls(v: &Value) -> Value {
    match v {
        Value::Object(o) => Value::Object(o.iter().filter(|(_, x)| !x.is_null()).map(|(k, x)| (k.clone(), strip_nulls(x))).collect()),
        Value::Array(a) => Value::Array(a.iter().map(strip_nulls).collect()),
        x => x.clone(),
    }
}

/// first difference between two JSON values: (path with indices, path class without indices, a, b)
fn first_diff(a: &Value, b: &Value, path: &mut Vec<String>) -> Option<(String, String, String, String)> {
    let here = |p: &Vec<String>| (p.join("."), p.iter().map(|s| if s.parse::<usize>().is_ok() { "[]".to_string() } else { s.clone() }).collect::<Vec<_>>().join("."));
    match (a, b) {
        (Value::Object(x), Value::Object(y)) => {
            let keys: std::collections::BTreeSet<&String> = x.keys().chain(y.keys()).collect();
            for k in keys {
                path.push(k.clone());
                match (x.get(k), y.get(k)) {
                    (Some(p), Some(q)) => { if let Some(d) = first_diff(p, q, path) { return Some(d); } }
                    (p, q) => { let (f, c) = here(path); return Some((f, c, p.map(|v| v.to_string()).unwrap_or("<absent>".into()), q.map(|v| v.to_string()).unwrap_or("<absent>".into()))); }
                }
                path.pop();
            }
            None
        }
        (Value::Array(x), Value::Array(y)) => {
            if x.len() != y.len() { path.push("len".into()); let (f, c) = here(path); return Some((f, c, x.len().to_string(), y.len().to_string())); }
            for (i, (p, q)) in x.iter().zip(y).enumerate() {
                path.push(i.to_string());
                if let Some(d) = first_diff(p, q, path) { return Some(d); }
                path.pop();
            }
            None
        }
        (Value::Number(x), Value::Number(y)) => {
            // exact numeric equality: integers as integers, otherwise bit-equal f64 (10000 == 10000.0)
            let same = match (x.as_i64(), y.as_i64(), x.as_u64(), y.as_u64()) {
                (Some(p), Some(q), _, _) => p == q,
                (_, _, Some(p), Some(q)) => p == q,
                _ => x.as_f64() == y.as_f64(),
            };
            if same { None } else { let (f, c) = here(path); Some((f, c, x.to_string(), y.to_string())) }
        }
        (p, q) => if p == q { None } else { let (f, c) = here(path); Some((f, c, p.to_string(), q.to_string())) },
    }
}

pub struct RunOut { pub draws: usize, pub generated: Option<Value>, pub verdict: Option<(String, String)>, pub mt_text: Option<String>, pub capped: bool }

/// one execution of the chain under one schedule; verdict = Some((clause, detail)) on a violation
pub fn run_chain(scenario: &Value, s: &Sched) -> RunOut {
    let (g, draws) = with_sched(s, || plugins::generate_mt(scenario));
    let mut out = RunOut { draws, generated: None, verdict: None, mt_text: None, capped: false };
    let generated = match g {
        Err(l) => {
            if l.contains("draw cap") || draws >= DRAW_CAP { out.capped = true; return out; }
            out.verdict = Some((format!("generate:panic@{}", short_loc(&l)), l)); return out;
        }
        Ok(Err(e)) => { out.verdict = Some(("generate:error".into(), e)); return out; }
        Ok(Ok(v)) => v,
    };
    // generate_mt wraps the message as {json_data: …}? accept both shapes like the end-to-end test does
    let data = generated.get("json_data").cloned().unwrap_or(generated.clone());
    out.generated = Some(data.clone());
    if std::env::var("VERIF_C15_DEBUG").is_ok() { eprintln!("draws={} 32A={}", draws, data.pointer("/fields/32A/amount").map(|v| v.to_string()).unwrap_or_default()); }
    out.verdict = judge_generated(&data, &mut out.mt_text);
    out
}

pub fn judge_generated(data: &Value, mt_out: &mut Option<String>) -> Option<(String, String)> {
    let text = match guarded(|| plugins::publish_mt(data)) {
        Err(l) => return Some((format!("publish:panic@{}", short_loc(&l)), l)),
        Ok(Err(e)) => return Some((format!("publish:error:{}", err_class(&e)), e)),
        Ok(Ok(t)) => t,
    };
    *mt_out = Some(text.clone());
    match guarded(|| plugins::validate_mt(&text)) {
        Err(l) => return Some((format!("validate:panic@{}", short_loc(&l)), l)),
        Ok(Err(e)) => return Some((format!("validate:error:{}", err_class(&e)), e)),
        Ok(Ok(v)) => {
            let valid = v.get("valid").and_then(|x| x.as_bool()).unwrap_or(false);
            let errs = v.get("errors").and_then(|x| x.as_array()).cloned().unwrap_or_default();
            if !valid || !errs.is_empty() {
                let codes: std::collections::BTreeSet<String> = errs.iter().map(|e| err_class(&e.to_string())).collect();
                return Some((format!("invalid:{}", codes.into_iter().collect::<Vec<_>>().join("+")), v.to_string()));
            }
        }
    }
    let parsed = match guarded(|| plugins::parse_mt(&text)) {
        Err(l) => return Some((format!("parse:panic@{}", short_loc(&l)), l)),
        Ok(Err(e)) => return Some((format!("parse:error:{}", err_class(&e)), e)),
        Ok(Ok((d, _))) => d,
    };
    let a = strip_nulls(data);
    let b = strip_nulls(&parsed);
    if let Some((full, class, x, y)) = first_diff(&a, &b, &mut vec![]) {
        return Some((format!("json-differs@{class}"), format!("{full}: generated {x}, parsed back {y}")));
    }
    None
}

/// a short stable class of an error text: the SWIFT code if one is quoted, else the first words
fn err_class(e: &str) -> String {
    let b = e.as_bytes();
    for i in 0..b.len().saturating_sub(2) {
        if (b[i] == b'T' || b[i] == b'C' || b[i] == b'D' || b[i] == b'E') && b[i + 1].is_ascii_digit() && b[i + 2].is_ascii_digit()
            && (i == 0 || !b[i - 1].is_ascii_alphanumeric()) && (i + 3 >= b.len() || !b[i + 3].is_ascii_alphanumeric()) {
            return e[i..i + 3].to_string();
        }
    }
    e.split(|c: char| !(c.is_ascii_alphanumeric() || c == ' ')).next().unwrap_or("").split_whitespace().take(4).collect::<Vec<_>>().join("-")
}

pub fn repo_dir() -> std::path::PathBuf {
    // the crate the harness is linked against (harness/Cargo.toml: swift-mt-message = { path = … })
    let t = std::fs::read_to_string(crate::verif_dir().join("harness/Cargo.toml")).unwrap_or_default();
    for l in t.lines() {
        if l.starts_with("swift-mt-message") { if let Some(p) = l.split("path = \"").nth(1) { return p.split('"').next().unwrap_or("/repo").into(); } }
    }
    "/repo".into()
}

/// `substr(fake, 0, N)` sites of a scenario schema: (JSON pointer of the generated string, N, constant prefix, faker).
/// A site is either the `substr` node itself or a `{"cat": [<constant strings>…, <substr node>]}` around it.
fn substr_sites(schema: &Value, path: &mut Vec<String>, out: &mut Vec<(String, usize, String, String)>) {
    fn as_substr(v: &Value) -> Option<(usize, String)> {
        let a = v.get("substr")?.as_array()?;
        if a.len() != 3 { return None; }
        let faker = a[0].get("fake")?.as_array()?.first()?.as_str()?.to_string();
        Some((a[2].as_u64()? as usize, faker))
    }
    match schema {
        Value::Object(o) => {
            if let Some((n, faker)) = as_substr(schema) { out.push((format!("/{}", path.join("/")), n, String::new(), faker)); return; }
            if let Some(Value::Array(parts)) = o.get("cat") {
                if let Some((last, init)) = parts.split_last() { if let Some((n, faker)) = as_substr(last) { if init.iter().all(|p| p.is_string()) {
                    let prefix: String = init.iter().filter_map(|p| p.as_str()).collect();
                    out.push((format!("/{}", path.join("/")), n, prefix, faker));
                } } }
                return;
            }
            for (k, v) in o { path.push(k.clone()); substr_sites(v, path, out); path.pop(); }
        }
        Value::Array(a) => for (i, v) in a.iter().enumerate() { path.push(i.to_string()); substr_sites(v, path, out); path.pop(); },
        _ => {}
    }
}

pub struct Scen { pub mt: String, pub name: String, pub path: std::path::PathBuf, pub value: Value }

pub fn scenarios(ev: &mut Evidence, col: &mut Collector) -> Vec<Scen> {
    let root = repo_dir().join("test_scenarios");
    let mut v = vec![];
    let mut dirs: Vec<_> = std::fs::read_dir(&root).map(|r| r.flatten().map(|e| e.path()).filter(|p| p.is_dir()).collect()).unwrap_or_default();
    dirs.sort();
    let mut index_listed = 0u64; let mut unlisted = vec![]; let mut missing = vec![];
    for d in dirs {
        let mt = d.file_name().unwrap().to_string_lossy().to_uppercase();
        let mut files: Vec<_> = std::fs::read_dir(&d).unwrap().flatten().map(|e| e.path()).filter(|p| p.extension().map(|x| x == "json").unwrap_or(false)).collect();
        files.sort();
        let mut listed = std::collections::BTreeSet::new();
        if let Ok(t) = std::fs::read_to_string(d.join("index.json")) {
            if let Ok(ix) = serde_json::from_str::<Value>(&t) {
                for s in ix.get("scenarios").and_then(|x| x.as_array()).cloned().unwrap_or_default() {
                    if let Some(f) = s.get("file").and_then(|x| x.as_str()) { listed.insert(f.to_string()); index_listed += 1; }
                }
            }
        }
        for f in &files {
            let name = f.file_name().unwrap().to_string_lossy().to_string();
            if name == "index.json" { continue; }
            if !listed.contains(&name) { unlisted.push(format!("{mt}/{name}")); }
            match std::fs::read_to_string(f).ok().and_then(|t| serde_json::from_str::<Value>(&t).ok()) {
                Some(value) => v.push(Scen { mt: mt.clone(), name: name.trim_end_matches(".json").to_string(), path: f.clone(), value }),
                None => col.add(format!("C15/{mt}/{name}/unreadable"), 0, || "scenario file is not JSON".into(), || json!({"file": f.to_string_lossy()})),
            }
        }
        for l in &listed { if !d.join(l).exists() { missing.push(format!("{mt}/{l}")); } }
    }
    ev.set("scenario_files", json!(v.len()));
    ev.set("index_listed", json!(index_listed));
    ev.set("files_not_in_index", json!(unlisted));
    for m in &missing { col.add(format!("C15/{m}/listed-but-missing"), 0, || "index.json lists a scenario file that is not shipped".into(), || json!({"file": m})); }
    v
}

fn ymd_to_unix(y: i64, m: i64, d: i64) -> i64 {
    // days from civil (Howard Hinnant)
    let y2 = if m <= 2 { y - 1 } else { y };
    let era = if y2 >= 0 { y2 } else { y2 - 399 } / 400;
    let yoe = y2 - era * 400;
    let doy = (153 * (if m > 2 { m - 3 } else { m + 9 }) + 2) / 5 + d - 1;
    let doe = yoe * 365 + yoe / 4 - yoe / 100 + doy;
    (era * 146097 + doe - 719468) * 86400 + 12 * 3600
}

fn clocks(thorough: bool) -> Vec<i64> {
    let mut v = vec![];
    if thorough {
        let start = ymd_to_unix(2024, 1, 1); let end = ymd_to_unix(2029, 12, 31);
        let mut t = start; while t <= end { v.push(t); t += 86400; }
    } else {
        for (y, m, d) in [(2026, 10, 2), (2024, 2, 29), (2025, 12, 31), (2026, 1, 1), (2027, 2, 28), (2030, 6, 30), (2049, 12, 31), (2026, 9, 9)] { v.push(ymd_to_unix(y, m, d)); }
        // end of day / start of day: the time of day must not matter
        v.push(ymd_to_unix(2026, 3, 31) + 11 * 3600 + 3599); v.push(ymd_to_unix(2026, 4, 1) - 12 * 3600);
    }
    v
}

fn dev_values(thorough: bool) -> Vec<u64> {
    let q: u64 = if thorough { 32 } else { 8 };
    let mut v = vec![0u64, u64::MAX];
    for j in 0..q { v.push((u64::MAX / q) * j + (u64::MAX / q) / 2); }
    v
}

#[derive(Default)]
struct Acc { col: Collector, derived_runs: u64, samples: Vec<Value>, wide_points: u64, runs: u64, capped: u64, draws_max: usize, outcomes: std::collections::BTreeSet<String>, distinct_texts: std::collections::HashSet<u64>, nondet: Vec<String>, dev_points: u64, pair_runs: u64, clock_runs: u64 }

fn fnv(s: &str) -> u64 { let mut h = 0xcbf29ce484222325u64; for b in s.bytes() { h ^= b as u64; h = h.wrapping_mul(0x100000001b3); } h }

pub fn run(ctx: &Ctx) -> i32 {
    let mut ev = Evidence::new("C15", &ctx.tier, "exploration");
    let mut col = Collector::new();
    let mut scens = scenarios(&mut ev, &mut col);
    if let Ok(f) = std::env::var("VERIF_C15_ONLY") { scens.retain(|s| format!("{}/{}", s.mt, s.name).contains(&f)); }
    let thorough = ctx.thorough;
    let t0 = ymd_to_unix(2026, 10, 2);
    let mut bases = vec![Base::Min, Base::Max];
    for s in 1..=(if thorough { 12 } else { 6 }) { bases.push(Base::Lcg(s)); }
    let dev_bases: Vec<Base> = if thorough { vec![Base::Lcg(1), Base::Lcg(2), Base::Min, Base::Max] } else { vec![Base::Lcg(1), Base::Min] };
    let dvals = dev_values(thorough);
    let clk = clocks(thorough);
    let pair_cap_points = if thorough { 400 } else { 0 };
    let extra: usize = if thorough { 512 } else { 64 };
    let accs = par_for(scens.len(), 1, Acc::default, |k, acc: &mut Acc| {
        let sc = &scens[k];
        let t_sc = std::time::Instant::now();
        let order0 = (k as u64) << 32;
        let mut order = order0;
        let mut one = |acc: &mut Acc, s: &Sched, kind: &str| -> usize {
            order += 1; acc.runs += 1;
            let r = run_chain(&sc.value, s);
            acc.draws_max = acc.draws_max.max(r.draws);
            if r.capped { acc.capped += 1; acc.outcomes.insert("draw-cap".into()); return r.draws; }
            if let Some(t) = &r.mt_text { acc.distinct_texts.insert(fnv(t)); if acc.samples.len() < 1 && acc.runs % 997 == 1 { acc.samples.push(json!({"scenario": format!("{}/{}", sc.mt, sc.name), "schedule": s.to_json(), "draws": r.draws, "published": t.chars().take(400).collect::<String>(), "verdict": r.verdict.as_ref().map(|v| v.0.clone()).unwrap_or("ok".into())})); } }
            match r.verdict {
                None => { acc.outcomes.insert("ok".into()); }
                Some((clause, detail)) => {
                    acc.outcomes.insert(clause.clone());
                    acc.col.add(format!("C15/{}/{}/{}", sc.mt, sc.name, clause), order, || format!("{kind}: {detail}"),
                        || json!({"scenario": sc.path.to_string_lossy(), "schedule": s.to_json(), "generated": r.generated, "mt": r.mt_text}));
                }
            }
            r.draws
        };
        // ownership of nondeterminism: same schedule twice => same generated JSON
        let s0 = Sched { base: Base::Lcg(1), devs: vec![], clock: t0 };
        let a = run_chain(&sc.value, &s0); let b = run_chain(&sc.value, &s0);
        if a.generated.as_ref().map(|v| v.to_string()) != b.generated.as_ref().map(|v| v.to_string()) || a.draws != b.draws {
            acc.nondet.push(format!("{}/{}", sc.mt, sc.name));
        }
        // base schedules
        let mut n_of: Vec<(Base, usize)> = vec![];
        for b in &bases {
            let n = one(acc, &Sched { base: b.clone(), devs: vec![], clock: t0 }, "base schedule");
            n_of.push((b.clone(), n));
        }
        // single deviations
        for b in &dev_bases {
            let n = n_of.iter().find(|(x, _)| x == b).map(|(_, n)| *n).unwrap_or(0);
            if n >= DRAW_CAP { acc.outcomes.insert(format!("deviations-skipped(base {b:?} never terminates)")); continue; }
            for i in 0..n {
                acc.dev_points += 1;
                let mut seen_texts = std::collections::HashSet::new(); let mut tried = 0usize;
                for v in &dvals {
                    if base_word(b, i) == *v { continue; }
                    let before = acc.distinct_texts.len();
                    one(acc, &Sched { base: b.clone(), devs: vec![(i, *v)], clock: t0 }, "single deviation");
                    tried += 1; if acc.distinct_texts.len() > before { seen_texts.insert(*v); }
                }
                // a draw point whose every alphabet value gave a message never seen before is a pick from a
                // wide domain (a number, a long list): give it `extra` more values (first deviation base only)
                if *b == dev_bases[0] && tried > 0 && seen_texts.len() + 1 >= tried {
                    acc.wide_points += 1;
                    for j in 0..extra { one(acc, &Sched { base: b.clone(), devs: vec![(i, base_word(&Base::Lcg(1000 + j as u64), i))], clock: t0 }, "single deviation (wide point)"); }
                }
            }
        }
        // pairs of extreme deviations (thorough)
        if pair_cap_points > 0 {
            let b = Base::Lcg(1);
            let n = n_of.iter().find(|(x, _)| *x == b).map(|(_, n)| *n).unwrap_or(0);
            if n <= pair_cap_points {
                for i in 0..n { for j in (i + 1)..n { for (x, y) in [(0u64, 0u64), (0, u64::MAX), (u64::MAX, 0), (u64::MAX, u64::MAX)] {
                    acc.pair_runs += 1;
                    one(acc, &Sched { base: b.clone(), devs: vec![(i, x), (j, y)], clock: t0 }, "pair of deviations");
                } } }
            } else { acc.outcomes.insert("pairs-skipped(points>cap)".into()); }
        }
        if std::env::var("VERIF_C15_TRACE").is_ok() { eprintln!("{}/{} runs={} draws_max={} {:.1}s", sc.mt, sc.name, acc.runs, acc.draws_max, t_sc.elapsed().as_secs_f64()); }
        // derived draws at the `substr(fake, 0, N)` sites: the cut of a longer text lands right after a blank.
        // (Which long names exist is a property of the faker tables; the class "line ends in a blank" is reachable
        // -- a seeded change was demonstrated on such draws -- so it is emulated on the generated value: the line is
        // cut after each of its blanks.)
        {
            let mut derived_order = 0u64;
            let mut sites = vec![]; substr_sites(sc.value.get("schema").unwrap_or(&Value::Null), &mut vec![], &mut sites);
            let base = run_chain(&sc.value, &Sched { base: Base::Lcg(1), devs: vec![], clock: t0 });
            if let Some(g) = base.generated {
                for (ptr, n, prefix, faker) in sites {
                    let Some(Value::String(whole)) = g.pointer(&ptr).cloned() else { continue };
                    let Some(line) = whole.strip_prefix(prefix.as_str()).map(|x| x.to_string()) else { continue };
                    let mut variants: Vec<(String, String)> = vec![];
                    // (a) the cut lands right after a blank
                    for (k, ch) in line.char_indices() { if ch == ' ' && k > 0 && k + 1 <= n { variants.push(("line cut after a blank".into(), line[..=k].to_string())); } }
                    // (b) the cut takes effect: the text is at least N characters long (compound fakers produce such texts)
                    if ["company_name", "street_address", "name", "sentence", "words", "bs"].contains(&faker.as_str()) && !line.is_empty() && line.chars().count() < n {
                        let mut padded = line.clone(); while padded.chars().count() < n { padded.push_str(" AND "); padded.push_str(&line); }
                        variants.push(("line of exactly N characters".into(), padded.chars().take(n).collect::<String>().trim_end().to_string()));
                        let full: String = padded.chars().take(n).map(|c| if c == ' ' { 'X' } else { c }).collect(); variants.push(("line of exactly N characters".into(), full));
                    }
                    for (what, newline) in variants {
                        let mut v = g.clone();
                        if let Some(x) = v.pointer_mut(&ptr) { *x = Value::String(format!("{prefix}{newline}")); }
                        derived_order += 1; acc.runs += 1; acc.derived_runs += 1;
                        let mut t = None;
                        if let Some((clause, detail)) = judge_generated(&v, &mut t) {
                            acc.outcomes.insert(clause.clone());
                            acc.col.add(format!("C15/{}/{}/{}", sc.mt, sc.name, clause), order0 + (1 << 31) + derived_order, || format!("derived draw ({what} at {ptr}): {detail}"), || json!({"scenario": sc.path.to_string_lossy(), "derived": {"pointer": ptr, "line": newline}, "generated": v, "mt": t}));
                        }
                    }
                }
            }
        }
        // clock alphabet
        for t in &clk {
            for b in [Base::Lcg(1), Base::Max] {
                acc.clock_runs += 1;
                one(acc, &Sched { base: b, devs: vec![], clock: *t }, "clock");
            }
        }
    });
    let mut runs = 0; let mut capped = 0; let mut dmax = 0; let mut outcomes = std::collections::BTreeSet::new(); let mut texts = 0usize; let mut nondet = vec![];
    let mut samples: Vec<Value> = vec![]; let mut per: Vec<Value> = vec![]; let (mut devp, mut pairs, mut clockr, mut wide) = (0, 0, 0, 0u64); let mut derived = 0u64;
    for (k, a) in accs.into_iter().enumerate() {
        // par_for returns one accumulator per worker, not per item: only totals are meaningful
        let _ = k;
        runs += a.runs; capped += a.capped; dmax = dmax.max(a.draws_max); outcomes.extend(a.outcomes); texts += a.distinct_texts.len(); nondet.extend(a.nondet);
        derived += a.derived_runs; samples.extend(a.samples.clone()); devp += a.dev_points; pairs += a.pair_runs; clockr += a.clock_runs; wide += a.wide_points;
        col.merge(a.col);
    }
    per.push(json!({"note": "per-scenario numbers are not kept; totals below"})); samples.truncate(6);
    ev.set("evaluations", json!(runs));
    ev.set("distinct_nontrivial", json!(texts));
    ev.set("exhaustive", json!(false));
    ev.set("rule", json!("one evaluation = one execution of Generate -> Publish -> Validate -> Parse on the real plugins under one (scenario file, draw schedule, clock); schedules: base streams (all-min, all-max, splitmix streams), every single deviation of every draw point over the quantile alphabet, extra values at wide draw points, pairs of extreme deviations (thorough), the clock alphabet; distinct = distinct published MT texts"));
    ev.set("samples", json!(samples));
    ev.set("chain_executions", json!(runs));
    ev.set("draw_points_deviated", json!(devp));
    ev.set("pair_runs", json!(pairs));
    ev.set("derived_blank_cut_runs", json!(derived));
    ev.set("wide_draw_points_given_extra_values", json!(wide));
    ev.set("clock_runs", json!(clockr));
    ev.set("runs_cut_by_draw_cap", json!(capped));
    ev.set("max_draws_in_one_generation", json!(dmax));
    ev.set("distinct_published_messages", json!(texts));
    ev.set("distinct_outcomes", json!(outcomes));
    ev.set("bounds", json!({"base_schedules": bases.len(), "deviation_bases": dev_bases.len(), "deviation_alphabet": dvals.len(), "clock_alphabet": clk.len(), "pairs_point_cap": pair_cap_points, "extra_values_per_wide_point": extra, "draw_cap": DRAW_CAP}));
    ev.assume("ThreadRng words and datafake's clock are the only nondeterminism of generate_mt (checked: each scenario's first schedule is run twice and must give identical JSON)");
    ev.assume("deviation alphabet = {0, MAX} + quantile midpoints: every outcome of a uniform pick among <= |quantiles| alternatives is reached at every draw point; picks from longer lists (names, cities) are covered at the quantiles only");
    ev.assume("clock domain 2024..2030 (+2049-12-31); years >= 2050 are outside the YYMMDD pivot window and unspecified");
    if !nondet.is_empty() {
        eprintln!("machinery error: generation is not a function of the schedule for {nondet:?}");
        ev.set("nondeterministic_scenarios", json!(nondet));
        ev.write();
        return 2;
    }
    super::finish(ev, &col)
}

pub fn replay(case: &Value) -> i32 {
    // replays start from the recorded schedule when the scenario file is still there, and in any case
    // re-judge the recorded generated JSON (publish -> validate -> parse -> compare)
    let mut bad = false;
    if let (Some(p), Some(s)) = (case.get("scenario").and_then(|x| x.as_str()), case.get("schedule").and_then(Sched::from_json)) {
        if let Some(v) = std::fs::read_to_string(p).ok().and_then(|t| serde_json::from_str::<Value>(&t).ok()) {
            let r = run_chain(&v, &s);
            println!("schedule replay: draws={} verdict={:?}", r.draws, r.verdict);
            bad |= r.verdict.is_some();
        }
    }
    if let Some(g) = case.get("generated") {
        if !g.is_null() {
            let mut t = None;
            let v = judge_generated(g, &mut t);
            println!("generated-JSON replay: verdict={v:?}");
            bad |= v.is_some();
        }
    }
    if bad { 1 } else { 0 }
}
