//! C06 — monetary amounts and rates are accepted only as decimals and preserved exactly.
//! Full product: amount-bearing fields x all ISO-4217 codes x decimals 0..5 x magnitudes 0..15
//! digits x digit patterns x separator spellings, plus the menu of non-decimal spellings.
use crate::common::{ev::Evidence, findings::Collector, guard::guarded, par};
use crate::spec::{iso4217, m1::{self, CV, V}};
use crate::{with_field, Ctx};
use serde_json::{json, Value};
use swift_mt_message::SwiftField;

/// (kind, prefix before the currency, text between currency and amount, suffix, carries a currency)
const FIELDS: [(&str, &str, &str, &str, bool); 21] = [
    ("19", "", "", "", false), ("32A", "240719", "", "", true), ("32B", "", "", "", true), ("32C", "240719", "", "", true), ("32D", "240719", "", "", true),
    ("33B", "", "", "", true), ("34F", "", "", "", true), ("34F", "", "D", "", true), ("36", "", "", "", false), ("37H", "C", "", "", false),
    ("60F", "C231225", "", "", true), ("60M", "D231225", "", "", true), ("61", "231225D", "", "NTRFREF123", false),
    ("62F", "C231225", "", "", true), ("62M", "C231225", "", "", true), ("64", "C231225", "", "", true), ("65", "C231225", "", "", true),
    ("71F", "", "", "", true), ("71G", "", "", "", true), ("90C", "5", "", "", true), ("90D", "12345", "", "", true),
];

fn amount_strings() -> Vec<String> {
    let mut v = vec![];
    let ints = |n: usize| -> Vec<String> {
        if n == 0 { return vec![String::new()]; }
        vec![format!("1{}", "0".repeat(n - 1)), "9".repeat(n), "123456789012345678"[..n].to_string(), format!("{}5", "4".repeat(n - 1))]
    };
    let decs = |n: usize| -> Vec<String> {
        if n == 0 { return vec![String::new()]; }
        vec!["5".repeat(n), "9".repeat(n), "0".repeat(n), format!("{}1", "0".repeat(n - 1)), "12345"[..n].to_string()]
    };
    // rates (12d) and the 17d sum may carry up to 10 / 15 decimals: a few long fractions with short integer parts
    for ni in 1..=3usize { for nd in 6..=11usize {
        for i in [format!("1{}", "0".repeat(ni - 1)), "9".repeat(ni)] { for d in ["9876543210987"[..nd].to_string(), format!("{}1", "0".repeat(nd - 1)), "1".repeat(nd)] {
            v.push(format!("{i},{d}"));
        } }
    } }
    for ni in 0..=16 { for nd in 0..=5 {
        for i in ints(ni) { for d in decs(nd) {
            v.push(format!("{i},{d}"));
            v.push(format!("{i}.{d}"));
            if nd == 0 { v.push(i.clone()); }
        } }
    } }
    for s in ["1,2,3", "1.2.3", "1,2.3", ",", ".", "", "0", "0,", "0,0", "00,10", "0010,5"] { v.push(s.to_string()); }
    for s in ["NaN", "nan", "inf", "-inf", "infinity", "1e3", "1E-2", "+5", "-5", "-0", "0x10", "1_0", " 5", "5 ", "5,5e1", "1,5-", "٥"] { v.push(s.to_string()); }
    v.sort(); v.dedup();
    v
}

fn value_of(kind: &str, content: &str) -> Option<String> {
    let comps = m1::components(kind, content)?;
    comps.iter().find_map(|(n, c)| if *n == "amount" || *n == "rate" { if let CV::D(d) = c { Some(d.clone()) } else { None } } else { None })
}

fn find_numbers(v: &Value, out: &mut Vec<serde_json::Number>) {
    match v { Value::Number(n) => out.push(n.clone()), Value::Array(a) => for x in a { find_numbers(x, out) }, Value::Object(m) => for (k, x) in m { if k == "amount" || k == "rate" { find_numbers(x, out) } }, _ => {} }
}

fn mag(v: &str) -> &'static str { let n = v.split('.').next().unwrap_or("").len(); if n <= 9 { "<=9digits" } else if n <= 13 { "10-13digits" } else { "14-15digits" } }
fn ndec(v: &str) -> usize { v.split_once('.').map(|(_, f)| f.len()).unwrap_or(0) }

struct Acc { col: Collector, evals: u64, judged: u64, accepted: u64, unspec: u64, buckets: std::collections::HashSet<String> }

pub fn run(ctx: &Ctx) -> i32 {
    let mut ev = Evidence::new("C06", &ctx.tier, "exploration");
    let amounts = amount_strings();
    let mut ccys: Vec<String> = iso4217::TABLE.iter().map(|(c, _)| c.to_string()).collect();
    ccys.extend(["XYZ", "ABC", "usd"].iter().map(|s| s.to_string()));
    // quick: one currency per precision class + metals + non-codes for the full amount menu, all currencies for a reduced amount menu
    let key_ccys: Vec<String> = ["USD", "EUR", "JPY", "KRW", "BHD", "KWD", "CLF", "UYW", "XAU", "XDR", "XYZ", "usd", "HUF", "ISK"].iter().map(|s| s.to_string()).collect();
    let reduced: Vec<String> = amounts.iter().filter(|a| a.len() <= 9 || a.starts_with("999999999999")).cloned().collect();
    let mut cases: Vec<(usize, String, String)> = vec![]; // (field idx, ccy, amount)
    for (fi, f) in FIELDS.iter().enumerate() {
        if f.4 {
            for c in &ccys {
                let full = ctx.thorough || key_ccys.contains(c);
                for a in if full { &amounts } else { &reduced } { cases.push((fi, c.clone(), a.clone())); }
            }
        } else { for a in &amounts { cases.push((fi, String::new(), a.clone())); } }
    }
    let n = cases.len();
    let accs = par::par_for(n, 2000, || Acc { col: Collector::new(), evals: 0, judged: 0, accepted: 0, unspec: 0, buckets: Default::default() }, |i, a| {
        let (fi, ccy, amt) = &cases[i];
        let (kind, pre, mid, suf, _) = FIELDS[*fi];
        let content = format!("{pre}{ccy}{mid}{amt}{suf}");
        let k = m1::kind(kind).unwrap();
        let verdict = (k.rec)(&content);
        a.evals += 1;
        let ty = k.ty;
        let case = || json!({"field": ty, "content": content});
        with_field!(ty, T => {
            let r = match guarded(|| <T as SwiftField>::parse(&content)) { Ok(r) => r, Err(_) => return };
            match (&r, &verdict) {
                (_, V::Reject("amount.dot")) => { a.unspec += 1; }
                (Ok(_), V::Reject(why)) if why.starts_with("amount") || why.starts_with("currency") || *why == "rate.zero" => {
                    a.judged += 1;
                    a.col.add(format!("C06/{ty}/over-accept:{why}"), i as u64, || "accepted".into(), case);
                }
                (Err(e), V::Accept(_)) => { a.judged += 1; a.col.add(format!("C06/{ty}/reject-valid:{}d:{}", ndec(&value_of(kind, &content).unwrap_or_default()), mag(&value_of(kind, &content).unwrap_or_default())), i as u64, || format!("{e}"), case); }
                (Ok(_), V::Accept(_)) | (Err(_), V::Reject(_)) => { a.judged += 1; }
                _ => { a.unspec += 1; }
            }
            if let Ok(f) = r {
                a.accepted += 1;
                // whatever the verdict: an accepted value must be finite and preserved exactly
                let Some(vin) = value_of(kind, &content).or_else(|| { let a2 = amt.replace('.', ","); value_of(kind, &format!("{pre}{ccy}{mid}{a2}{suf}")) }) else {
                    // accepted but not a decimal the model can read: non-decimal spelling
                    let j = serde_json::to_value(&f).unwrap_or(Value::Null);
                    let mut nums = vec![]; find_numbers(&j, &mut nums);
                    if nums.is_empty() && j.to_string().contains("null") { a.col.add(format!("C06/{ty}/non-finite"), i as u64, || format!("JSON {j}"), case); }
                    return;
                };
                a.buckets.insert(format!("{ty}:{}d:{}", ndec(&vin), mag(&vin)));
                let s = f.to_swift_string();
                let body = s.splitn(3, ':').nth(2).unwrap_or("").to_string();
                let cls = format!("{}d:{}", ndec(&vin), mag(&vin));
                // read the serialised amount by position (the output may exceed the field's own length limit)
                let head = format!("{pre}{ccy}{mid}");
                let vout = body.strip_prefix(head.as_str()).and_then(|r| r.strip_suffix(suf)).and_then(|a| match m1::amount(a, 64) { m1::Amt::Ok(v, _) | m1::Amt::NoSep(v) => Some(v), _ => None });
                match vout {
                    Some(vout) if vout == vin => {}
                    other => { a.col.add(format!("C06/{ty}/value-changed:mt:{cls}"), i as u64, || format!("read {vin}, serialised {:?} ({:?})", body, other), case); return; }
                }
                match <T as SwiftField>::parse(&body) { Ok(f2) if f2.to_swift_string() == s => {}, _ => { a.col.add(format!("C06/{ty}/value-changed:reparse:{cls}"), i as u64, || format!("own output {body:?} does not re-parse to the same value"), case); return; } }
                let j = match serde_json::to_value(&f) { Ok(j) => j, Err(e) => { a.col.add(format!("C06/{ty}/non-finite"), i as u64, || e.to_string(), case); return; } };
                let mut nums = vec![]; find_numbers(&j, &mut nums);
                let jv = nums.first().and_then(crate::spec::m2::json_num_to_dec);
                if jv.as_deref() != Some(vin.as_str()) && !(kind == "37H") { a.col.add(format!("C06/{ty}/value-changed:json:{cls}"), i as u64, || format!("read {vin}, JSON number {:?}", nums.first()), case); return; }
                match serde_json::from_value::<T>(j) { Ok(f3) if f3.to_swift_string() == s => {}, _ => { a.col.add(format!("C06/{ty}/value-changed:json-roundtrip:{cls}"), i as u64, || "from_value(to_value(f)) serialises differently".into(), case); } }
            }
        }, else => {});
    });
    let mut col = Collector::new(); let (mut evals, mut judged, mut accepted, mut unspec) = (0, 0, 0, 0); let mut buckets = std::collections::HashSet::new();
    for a in accs { col.merge(a.col); evals += a.evals; judged += a.judged; accepted += a.accepted; unspec += a.unspec; buckets.extend(a.buckets); }
    ev.set("evaluations", json!(evals)); ev.set("judged_accept_reject", json!(judged)); ev.set("unspecified", json!(unspec)); ev.set("accepted_by_library", json!(accepted));
    ev.set("distinct_nontrivial", json!(buckets.len()));
    ev.set("rule", json!("product of 21 amount/rate field templates x ISO-4217 codes (+3 non-codes) x amount spellings (integer digits 0..16 x decimals 0..5 x 4-5 digit patterns x {',' '.' none} + malformed and non-decimal spellings); quick uses the full spelling menu for 14 key currencies and a reduced menu for the rest, thorough the full product; accept/reject judged by the M1 recogniser where specified; every accepted value is compared as an exact decimal across MT text, re-parse, JSON and JSON round trip. distinct = (field, decimals, magnitude class) of accepted values"));
    ev.set("exhaustive", json!(ctx.thorough));
    ev.set("samples", json!([{"field": "Field32A", "content": "240719KWD1,500"}, {"field": "Field60F", "content": "C231225USD1234,567"}, {"field": "Field19", "content": "inf"}]));
    ev.assume("a '.' separator and an amount without any separator are Unspecified for accept/reject (the crate's own tests and examples use them); value preservation is still required when they are accepted");
    ev.assume("ISO 4217 minor units from the embedded table; non-ISO three-letter codes are Unspecified");
    // ---- the public helper validate_amount_decimals(value, currency): every ISO code x 0..6 written decimals x 3 magnitudes
    let mut helper_evals = 0u64;
    for (ccy, minor) in iso4217::TABLE.iter() {
        if *minor == 255 { continue; }
        for k in 0..=6usize { for int in ["10", "2500", "1500000"] {
            let text = if k == 0 { int.to_string() } else { format!("{int}.{}1", "0".repeat(k - 1)) };
            let v: f64 = text.parse().unwrap();
            helper_evals += 1;
            let ok = matches!(guarded(|| swift_mt_message::fields::swift_utils::validate_amount_decimals(v, ccy)), Ok(Ok(())));
            let want = k <= *minor as usize;
            if ok != want {
                let clause = if ok { "over-accept" } else { "reject-valid" };
                col.add(format!("C06/validate_amount_decimals/{clause}:{k}d-for-{minor}d-currency"), 9_000_000_000 + helper_evals, || format!("validate_amount_decimals({text}, {ccy}) -> {}", if ok { "Ok" } else { "Err" }), || json!({"helper": "validate_amount_decimals", "amount": text, "currency": ccy}));
            }
        } }
    }
    ev.set("helper_evaluations", json!(helper_evals));
    super::finish(ev, &col)
}

pub fn replay(v: &Value) -> i32 { super::c11::replay(v) }
