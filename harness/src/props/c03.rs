//! C03 — every well-formed message of a supported type is accepted and reproduced exactly.
//! Model exploration: E-layout over the 30 M2 automata; every trace is replayed on the implementation.
use crate::common::{ev::Evidence, findings::Collector, guard::guarded, par};
use crate::spec::{self, corpus::corpus, m2::{self, Msg}};
use crate::{with_mt, Ctx};
use serde_json::{json, Value};
use swift_mt_message::{SwiftMessageBody, SwiftParser};

pub enum Outcome { Ok, Fail { clause: &'static str, locus: String, detail: String } }

/// Replay one model trace on the implementation.
pub fn eval(msg: &Msg) -> Outcome {
    let lf = msg.text_lf();
    let full = spec::envelope(msg.mt, &lf);
    let expect_text = lf.trim_end_matches('\n').to_string();
    with_mt!(msg.mt, T => {
        let r = guarded(|| SwiftParser::parse::<T>(&full));
        let parsed = match r {
            Err(loc) => return Outcome::Fail { clause: "panic", locus: crate::common::guard::short_loc(&loc), detail: loc },
            Ok(Err(e)) => {
                let tag = err_tag(&e);
                return Outcome::Fail { clause: "rejected", locus: tag, detail: format!("{e}") };
            }
            Ok(Ok(p)) => p,
        };
        let out = match guarded(|| parsed.fields.to_mt_string()) { Ok(s) => s, Err(loc) => return Outcome::Fail { clause: "panic", locus: crate::common::guard::short_loc(&loc), detail: loc } };
        let out_n = out.replace("\r\n", "\n");
        if out_n != expect_text {
            let a = crate::common::tok::tokenise(&out_n); let b = crate::common::tok::tokenise(&expect_text);
            let mut locus = "length".to_string();
            for (i, t) in b.iter().enumerate() {
                if a.get(i) != Some(t) { locus = t.tag.clone(); break; }
            }
            if a.len() > b.len() && locus == "length" { locus = format!("extra:{}", a[b.len()].tag); }
            return Outcome::Fail { clause: "text-differs", locus, detail: format!("got {:?}", out_n) };
        }
        let j = match guarded(|| serde_json::to_value(&parsed)) { Ok(Ok(j)) => j, Ok(Err(e)) => return Outcome::Fail { clause: "json-wrong", locus: "serialize".into(), detail: e.to_string() }, Err(loc) => return Outcome::Fail { clause: "panic", locus: crate::common::guard::short_loc(&loc), detail: loc } };
        match m2::check_json(msg, j.get("fields").unwrap_or(&Value::Null)) {
            Ok(()) => Outcome::Ok,
            Err((clause, locus)) => {
                let c: &'static str = match clause.as_str() { "json-missing" => "json-missing", "json-extra" => "json-extra", _ => "json-wrong" };
                Outcome::Fail { clause: c, locus, detail: j.get("fields").map(|f| f.to_string()).unwrap_or_default() }
            }
        }
    }, else => Outcome::Fail { clause: "rejected", locus: "unknown-type".into(), detail: String::new() })
}

pub fn err_tag(e: &swift_mt_message::ParseError) -> String {
    use swift_mt_message::ParseError as P;
    match e {
        P::MissingRequiredField { field_tag, .. } => format!("missing:{field_tag}"),
        P::InvalidFieldFormat(b) => format!("invalid:{}", b.field_tag),
        P::InvalidFormat { message } => {
            if message.starts_with("Unparsed content") { "unparsed-content".into() } else if message.starts_with("Duplicate") { "duplicate".into() } else { "invalid-format".into() }
        }
        _ => "other".into(),
    }
}

struct Acc { col: Collector, ok: u64, fail: u64, samples: Vec<Value> }

pub fn run(ctx: &Ctx) -> i32 {
    let mut ev = Evidence::new("C03", &ctx.tier, "model_checking");
    let (d, cap) = if ctx.thorough { (2u32, 400_000u64) } else { (1u32, 20_000u64) };
    let mut all: Vec<Msg> = vec![];
    let mut regimes = vec![];
    let (mut states, mut transitions) = (0u64, 0u64);
    for mt in crate::common::reg::MT_CODES {
        let (msgs, st) = corpus(mt, d, cap);
        states += st.states; transitions += st.transitions;
        regimes.push(json!({"mt": mt, "regime": st.regime, "messages": st.messages, "automaton_states_visited": st.states, "choices_taken": st.transitions}));
        all.extend(msgs);
    }
    let n = all.len();
    let accs = par::par_for(n, 64, || Acc { col: Collector::new(), ok: 0, fail: 0, samples: vec![] }, |i, a| {
        let m = &all[i];
        match eval(m) {
            Outcome::Ok => { a.ok += 1; if a.samples.len() < 2 && i % 997 == 0 { a.samples.push(json!({"mt": m.mt, "trace": m.describe(), "text": m.text_lf()})); } }
            Outcome::Fail { clause, locus, detail } => {
                a.fail += 1;
                // raw key; culprit attribution happens after the merge
                let key = format!("{}|{}|{}|{}|{}", m.mt, clause, locus, m.base, m.devs.join("+"));
                a.col.add(key, i as u64, || detail.clone(), || json!({"mt": m.mt, "block4": m.text_lf(), "trace": m.describe(), "deviations": m.devs, "base": m.base}));
            }
        }
    });
    let mut raw = Collector::new(); let (mut ok, mut fail) = (0, 0); let mut samples = vec![];
    for a in accs { raw.merge(a.col); ok += a.ok; fail += a.fail; samples.extend(a.samples); }
    let mut col = attribute("C03", raw);
    // ---------- currency dimension: every ISO 4217 code x {max decimals, zero-padded, whole} in every
    // currency-carrying occurrence of one accepted minimal and one accepted maximal shape per type
    let (cn, cacc) = currency_sweep(&all);
    ev.set("currency_sweep_evaluations", json!(cn));
    col.merge(cacc);
    ev.set("states", json!(states)); ev.set("transitions", json!(transitions));
    ev.set("traces_validated_against_impl", json!(n));
    ev.set("evaluations", json!(n));
    ev.set("accepted_and_reproduced", json!(ok)); ev.set("traces_with_a_discrepancy", json!(fail));
    ev.set("distinct_nontrivial", json!(distinct_shapes(&all)));
    ev.set("rule", json!("every path of each M2 layout automaton within the stated regime (full product, or all paths within d deviations of the minimal and maximal base; a deviation = one optional toggled / one other option letter / one other repetition count / one other boundary instance); a case is distinct by its tag+option+sequence shape"));
    ev.set("regimes", json!(regimes));
    ev.set("exhaustive", json!(false));
    samples.truncate(6);
    if samples.is_empty() { samples.push(json!({"mt": all[0].mt, "text": all[0].text_lf()})); }
    ev.set("samples", json!(samples));
    ev.assume("M2 layout tables and M1 canonical instances are read from the crate's struct definitions, serde attributes, doc comments and to_mt_string order (DESIGN Appendix A)");
    ev.assume("JSON exposure is judged as a typed multiset match between the model's components and the JSON leaves at the modelled path (representation-agnostic)");
    super::finish(ev, &col)
}

/// offset of the 3-letter currency inside the content of a currency-carrying kind
fn ccy_offset(kind: &str, content: &str) -> Option<usize> {
    match kind {
        "32A" | "32C" | "32D" => Some(6),
        "32B" | "33B" | "71F" | "71G" | "34F" => Some(0),
        "60F" | "60M" | "62F" | "62M" | "64" | "65" => Some(7),
        "90C" | "90D" => Some(content.bytes().take_while(|b| b.is_ascii_digit()).count()),
        _ => None,
    }
}

fn currency_sweep(all: &[Msg]) -> (u64, Collector) {
    use crate::spec::{iso4217, m1};
    let mut picks: Vec<&Msg> = vec![];
    for mt in crate::common::reg::MT_CODES {
        let ok: Vec<&Msg> = all.iter().filter(|m| { let a: &str = m.mt; let b: &str = mt; a == b } && matches!(eval(m), Outcome::Ok)).take(4000).collect();
        if let Some(m) = ok.iter().find(|m| m.base == "min" && m.deviations == 0) { picks.push(m); }
        if let Some(m) = ok.iter().filter(|m| m.base == "max").max_by_key(|m| m.occs.len()) { picks.push(m); }
    }
    let mut jobs: Vec<(usize, usize, &'static str, String)> = vec![];
    for (pi, m) in picks.iter().enumerate() {
        for (oi, o) in m.occs.iter().enumerate() {
            let Some(off) = ccy_offset(&o.kind, &o.content) else { continue; };
            if o.content.len() < off + 3 { continue; }
            // 34F carries an optional D/C sign after the currency: keep whatever precedes the amount
            let rest = &o.content[off + 3..];
            let sign: String = rest.chars().take_while(|c| c.is_ascii_alphabetic()).collect();
            for (c, d) in iso4217::TABLE.iter() {
                if *d == 255 { continue; }
                let d = *d as usize;
                let mut amts = vec![];
                if d == 0 { amts.push("1250000".to_string()); } else {
                    amts.push(format!("1250000,{}", "505050"[..d].to_string()));      // all decimals used
                    amts.push(format!("980000,{}", "0".repeat(d)));                    // zero-padded whole amount
                    amts.push(format!("7,{}", &"0001"[4 - d.min(4)..]));               // smallest unit
                }
                for a in amts { jobs.push((pi, oi, c, format!("{}{}{}{}", &o.content[..off], c, sign, a))); }
            }
        }
    }
    let kinds = m1::kinds();
    let accs = par::par_for(jobs.len(), 64, || (0u64, Collector::new()), |i, a| {
        let (pi, oi, c, content) = &jobs[i];
        let base = picks[*pi];
        let k = kinds.iter().find(|k| k.tag == base.occs[*oi].kind);
        if let Some(k) = k { if !matches!((k.rec)(content), m1::V::Accept(_)) { return; } }
        let mut m = (*base).clone();
        m.occs[*oi].content = content.clone();
        a.0 += 1;
        if let Outcome::Fail { clause, locus, detail } = eval(&m) {
            a.1.add(format!("C03/MT{}/{}/{}/ccy:{}:{}", m.mt, clause, locus, base.occs[*oi].tag, c), i as u64, || detail.clone(), || json!({"mt": m.mt, "block4": m.text_lf(), "changed": {"tag": base.occs[*oi].tag, "content": content}}));
        }
    });
    let mut n = 0; let mut col = Collector::new();
    for (k, c) in accs { n += k; col.merge(c); }
    (n, col)
}

pub fn distinct_shapes(all: &[Msg]) -> usize {
    let mut s = std::collections::HashSet::new();
    for m in all { s.insert(format!("{}:{}", m.mt, m.describe())); }
    s.len()
}

/// Culprit attribution. A failing trace is identified by (type, clause, locus) and the *minimal*
/// set of deviations that already fails in the same way: traces are processed by ascending number
/// of deviations, and a trace whose deviation set contains an already recorded minimal set (same
/// base, or any base for a non-empty set) is counted under that set. So one defect gives one key
/// whatever the exploration depth.
pub fn attribute(prop: &str, raw: Collector) -> Collector {
    use std::collections::{BTreeMap, BTreeSet};
    struct F<'a> { mt: &'a str, clause: &'a str, locus: String, base: &'a str, devs: BTreeSet<String>, f: &'a crate::common::findings::Finding }
    let mut fs: Vec<F> = raw.map.values().map(|f| {
        let p: Vec<&str> = f.key.splitn(5, '|').collect();
        let devs: BTreeSet<String> = if p[4].is_empty() { BTreeSet::new() } else { p[4].split('+').map(strip_idx).collect() };
        F { mt: p[0], clause: p[1], locus: strip_idx(p[2]), base: p[3], devs, f }
    }).collect();
    fs.sort_by(|a, b| (a.devs.len(), &a.f.key).cmp(&(b.devs.len(), &b.f.key)));
    // (mt, clause, locus) -> minimal sets [(base, devs)]
    let mut minimal: BTreeMap<(String, String, String), Vec<(String, BTreeSet<String>)>> = BTreeMap::new();
    let mut out = Collector::new();
    for x in &fs {
        let slot = minimal.entry((x.mt.into(), x.clause.into(), x.locus.clone())).or_default();
        let found = slot.iter().find(|(b, m)| m.is_subset(&x.devs) && (b == x.base || !m.is_empty())).cloned();
        let (base, set) = match found { Some(m) => m, None => { slot.push((x.base.to_string(), x.devs.clone())); (x.base.to_string(), x.devs.clone()) } };
        let culprit = if set.is_empty() { format!("base:{base}") } else { set.iter().cloned().collect::<Vec<_>>().join("+") };
        let key = format!("{prop}/MT{}/{}/{}:{}", x.mt, x.clause, x.locus, culprit);
        let (what, case, order) = (x.f.what.clone(), x.f.case.clone(), x.f.order);
        out.add(key.clone(), order, || what, || case);
        if let Some(g) = out.map.get_mut(&key) { g.count += x.f.count - 1; }
    }
    out
}
fn strip_idx(s: &str) -> String {
    let mut out = String::new(); let mut chars = s.chars().peekable();
    while let Some(c) = chars.next() {
        out.push(c);
        if c == '@' { let mut had = false; while let Some(d) = chars.peek() { if d.is_ascii_digit() { chars.next(); had = true; } else { break; } } if had { out.push_str("seq"); } }
    }
    out
}

pub fn replay(v: &Value) -> i32 {
    let case = &v["case"];
    let mt = case["mt"].as_str().unwrap_or("");
    let b4 = case["block4"].as_str().unwrap_or("");
    let full = spec::envelope(mt, b4);
    let mut obs = vec![];
    for _ in 0..2 {
        let o = with_mt!(mt, T => {
            match guarded(|| SwiftParser::parse::<T>(&full)) {
                Err(loc) => format!("panic@{loc}"),
                Ok(Err(e)) => format!("Err: {e}"),
                Ok(Ok(p)) => format!("Ok text={:?} json={}", p.fields.to_mt_string(), serde_json::to_value(&p).map(|j| j["fields"].to_string()).unwrap_or_default()),
            }
        }, else => "unknown type".to_string());
        obs.push(o);
    }
    if obs[0] != obs[1] { eprintln!("MACHINERY: replay diverged"); return 2; }
    println!("input block4:\n{b4}\nobserved: {}", obs[0]);
    println!("recorded: {}", v["what"]);
    0
}
