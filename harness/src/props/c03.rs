//! C03 — every well-formed message of a supported type is accepted and reproduced exactly.
//! Model exploration: E-layout over the 30 M2 automata; every trace is replayed on the implementation.
use crate::common::{ev::Evidence, findings::Collector, guard::guarded, par};
use crate::spec::{self, corpus::corpus, m2::{self, Msg}};
use crate::{with_mt, Ctx};
use serde_json::{json, Value};
use swift_mt_message::{SwiftMessageBody, SwiftParser};

pub enum Outcome { Ok, Fail { clause: &'static str, locus: String, detail: String } }

/// Replay one model trace on the implementation.
pub fn eval(msg: &Msg) -> Outcome {
    let lf = msg.text_lf();
    let full = spec::envelope(msg.mt, &lf);
    let expect_text = lf.trim_end_matches('\n').to_string();
    with_mt!(msg.mt, T => {
        let r = guarded(|| SwiftParser::parse::<T>(&full));
        let parsed = match r {
            Err(loc) => return Outcome::Fail { clause: "panic", locus: crate::common::guard::short_loc(&loc), detail: loc },
            Ok(Err(e)) => {
                let tag = err_tag(&e);
                return Outcome::Fail { clause: "rejected", locus: tag, detail: format!("{e}") };
            }
            Ok(Ok(p)) => p,
        };
        let out = match guarded(|| parsed.fields.to_mt_string()) { Ok(s) => s, Err(loc) => return Outcome::Fail { clause: "panic", locus: crate::common::guard::short_loc(&loc), detail: loc } };
        let out_n = out.replace("\r\n", "\n");
        if out_n != expect_text {
            let a = crate::common::tok::tokenise(&out_n); let b = crate::common::tok::tokenise(&expect_text);
            let mut locus = "length".to_string();
            for (i, t) in b.iter().enumerate() {
                if a.get(i) != Some(t) { locus = t.tag.clone(); break; }
            }
            if a.len() > b.len() && locus == "length" { locus = format!("extra:{}", a[b.len()].tag); }
            return Outcome::Fail { clause: "text-differs", locus, detail: format!("got {:?}", out_n) };
        }
        let j = match guarded(|| serde_json::to_value(&parsed)) { Ok(Ok(j)) => j, Ok(Err(e)) => return Outcome::Fail { clause: "json-wrong", locus: "serialize".into(), detail: e.to_string() }, Err(loc) => return Outcome::Fail { clause: "panic", locus: crate::common::guard::short_loc(&loc), detail: loc } };
        match m2::check_json(msg, j.get("fields").unwrap_or(&Value::Null)) {
            Ok(()) => Outcome::Ok,
            Err((clause, locus)) => {
                let c: &'static str = match clause.as_str() { "json-missing" => "json-missing", "json-extra" => "json-extra", _ => "json-wrong" };
                Outcome::Fail { clause: c, locus, detail: j.get("fields").map(|f| f.to_string()).unwrap_or_default() }
            }
        }
    }, else => Outcome::Fail { clause: "rejected", locus: "unknown-type".into(), detail: String::new() })
}

pub fn err_tag(e: &swift_mt_message::ParseError) -> String {
    use swift_mt_message::ParseError as P;
    match e {
        P::MissingRequiredField { field_tag, .. } => format!("missing:{field_tag}"),
        P::InvalidFieldFormat(b) => format!("invalid:{}", b.field_tag),
        P::InvalidFormat { message } => {
            if message.starts_with("Unparsed content") { "unparsed-content".into() } else if message.starts_with("Duplicate") { "duplicate".into() } else { "invalid-format".into() }
        }
        _ => "other".into(),
    }
}

struct Acc { col: Collector, ok: u64, fail: u64, samples: Vec<Value> }

pub fn run(ctx: &Ctx) -> i32 {
    let mut ev = Evidence::new("C03", &ctx.tier, "model_checking");
    let (d, cap) = if ctx.thorough { (2u32, 400_000u64) } else { (1u32, 20_000u64) };
    let mut all: Vec<Msg> = vec![];
    let mut regimes = vec![];
    let (mut states, mut transitions) = (0u64, 0u64);
    for mt in crate::common::reg::MT_CODES {
        let (msgs, st) = corpus(mt, d, cap);
        states += st.states; transitions += st.transitions;
        regimes.push(json!({"mt": mt, "regime": st.regime, "messages": st.messages, "automaton_states_visited": st.states, "choices_taken": st.transitions}));
        all.extend(msgs);
    }
    let n = all.len();
    let accs = par::par_for(n, 64, || Acc { col: Collector::new(), ok: 0, fail: 0, samples: vec![] }, |i, a| {
        let m = &all[i];
        match eval(m) {
            Outcome::Ok => { a.ok += 1; if a.samples.len() < 2 && i % 997 == 0 { a.samples.push(json!({"mt": m.mt, "trace": m.describe(), "text": m.text_lf()})); } }
            Outcome::Fail { clause, locus, detail } => {
                a.fail += 1;
                // raw key; culprit attribution happens after the merge
                let key = format!("{}|{}|{}|{}|{}", m.mt, clause, locus, m.base, m.devs.join("+"));
                a.col.add(key, i as u64, || detail.clone(), || json!({"mt": m.mt, "block4": m.text_lf(), "trace": m.describe(), "deviations": m.devs, "base": m.base}));
            }
        }
    });
    let mut raw = Collector::new(); let (mut ok, mut fail) = (0, 0); let mut samples = vec![];
    for a in accs { raw.merge(a.col); ok += a.ok; fail += a.fail; samples.extend(a.samples); }
    let col = attribute("C03", raw);
    ev.set("states", json!(states)); ev.set("transitions", json!(transitions));
    ev.set("traces_validated_against_impl", json!(n));
    ev.set("evaluations", json!(n));
    ev.set("accepted_and_reproduced", json!(ok)); ev.set("traces_with_a_discrepancy", json!(fail));
    ev.set("distinct_nontrivial", json!(distinct_shapes(&all)));
    ev.set("rule", json!("every path of each M2 layout automaton within the stated regime (full product, or all paths within d deviations of the minimal and maximal base; a deviation = one optional toggled / one other option letter / one other repetition count / one other boundary instance); a case is distinct by its tag+option+sequence shape"));
    ev.set("regimes", json!(regimes));
    ev.set("exhaustive", json!(false));
    samples.truncate(6);
    if samples.is_empty() { samples.push(json!({"mt": all[0].mt, "text": all[0].text_lf()})); }
    ev.set("samples", json!(samples));
    ev.assume("M2 layout tables and M1 canonical instances are read from the crate's struct definitions, serde attributes, doc comments and to_mt_string order (DESIGN Appendix A)");
    ev.assume("JSON exposure is judged as a typed multiset match between the model's components and the JSON leaves at the modelled path (representation-agnostic)");
    super::finish(ev, &col)
}

pub fn distinct_shapes(all: &[Msg]) -> usize {
    let mut s = std::collections::HashSet::new();
    for m in all { s.insert(format!("{}:{}", m.mt, m.describe())); }
    s.len()
}

/// Culprit attribution: a failing trace with several deviations is attributed to a single
/// deviation that already fails alone (same type, base and clause); otherwise to all of them.
pub fn attribute(prop: &str, raw: Collector) -> Collector {
    use std::collections::HashMap;
    let mut singles: HashMap<(String, String, String, String), String> = HashMap::new(); // (mt, clause, base, dev) -> locus
    let mut base_fail: HashMap<(String, String, String), String> = HashMap::new();
    for f in raw.map.values() {
        let p: Vec<&str> = f.key.splitn(5, '|').collect();
        let devs: Vec<&str> = if p[4].is_empty() { vec![] } else { p[4].split('+').collect() };
        if devs.is_empty() { base_fail.insert((p[0].into(), p[1].into(), p[3].into()), p[2].into()); }
        if devs.len() == 1 { singles.insert((p[0].into(), p[1].into(), p[3].into(), devs[0].into()), p[2].into()); }
    }
    let mut out = Collector::new();
    for f in raw.map.values() {
        let p: Vec<&str> = f.key.splitn(5, '|').collect();
        let (mt, clause, locus, base) = (p[0], p[1], p[2], p[3]);
        let devs: Vec<&str> = if p[4].is_empty() { vec![] } else { p[4].split('+').collect() };
        let culprit: String = if base_fail.contains_key(&(mt.into(), clause.into(), base.into())) { format!("base:{base}") }
            else if let Some(dv) = devs.iter().find(|dv| singles.contains_key(&(mt.into(), clause.into(), base.into(), dv.to_string()))) { dv.to_string() }
            else if devs.is_empty() { format!("base:{base}") } else { devs.join("+") };
        // sequence-occurrence indices are incidental: strip "@<n>" to "@seq"
        let culprit = strip_idx(&culprit);
        let key = format!("{prop}/MT{mt}/{clause}/{}:{}", strip_idx(locus), culprit);
        let (what, case, order) = (f.what.clone(), f.case.clone(), f.order);
        out.add(key.clone(), order, || what, || case);
        if let Some(g) = out.map.get_mut(&key) { g.count += f.count - 1; }
    }
    out
}
fn strip_idx(s: &str) -> String {
    let mut out = String::new(); let mut chars = s.chars().peekable();
    while let Some(c) = chars.next() {
        out.push(c);
        if c == '@' { let mut had = false; while let Some(d) = chars.peek() { if d.is_ascii_digit() { chars.next(); had = true; } else { break; } } if had { out.push_str("seq"); } }
    }
    out
}

pub fn replay(v: &Value) -> i32 {
    let case = &v["case"];
    let mt = case["mt"].as_str().unwrap_or("");
    let b4 = case["block4"].as_str().unwrap_or("");
    let full = spec::envelope(mt, b4);
    let mut obs = vec![];
    for _ in 0..2 {
        let o = with_mt!(mt, T => {
            match guarded(|| SwiftParser::parse::<T>(&full)) {
                Err(loc) => format!("panic@{loc}"),
                Ok(Err(e)) => format!("Err: {e}"),
                Ok(Ok(p)) => format!("Ok text={:?} json={}", p.fields.to_mt_string(), serde_json::to_value(&p).map(|j| j["fields"].to_string()).unwrap_or_default()),
            }
        }, else => "unknown type".to_string());
        obs.push(o);
    }
    if obs[0] != obs[1] { eprintln!("MACHINERY: replay diverged"); return 2; }
    println!("input block4:\n{b4}\nobserved: {}", obs[0]);
    println!("recorded: {}", v["what"]);
    0
}
