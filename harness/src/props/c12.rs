//! C12 — message-type dispatch is consistent across every entry point.
//! Exhaustive: 30 x 30 (announced, requested) pairs x 3 shapes; all codes 000-999 (+ non-numeric)
//! in input and output application headers through parse_auto / typed parse / parse_mt /
//! validate_mt / publish_mt.
use crate::common::{ev::Evidence, findings::Collector, guard::{guarded, short_loc}, plugins, reg::MT_CODES};
use crate::spec::{self, corpus::corpus, m2::Msg};
use crate::{with_mt, Ctx};
use serde_json::{json, Value};
use swift_mt_message::{ParseError, SwiftParser};

fn shapes(mt: &str, cap: usize) -> (Vec<Msg>, usize) {
    let (msgs, _) = corpus(mt, 1, 3000);
    let ok: Vec<Msg> = msgs.into_iter().filter(|m| matches!(super::c03::eval(m), super::c03::Outcome::Ok)).collect();
    let mut v = vec![];
    if let Some(m) = ok.iter().find(|m| m.base == "min" && m.deviations == 0) { v.push(m.clone()); }
    if let Some(m) = ok.iter().filter(|m| m.base == "max").max_by_key(|m| m.occs.len()) { v.push(m.clone()); }
    if let Some(m) = ok.iter().find(|m| m.deviations == 1 && m.base == "min") { v.push(m.clone()); }
    if v.is_empty() { if let Some(m) = ok.first() { v.push(m.clone()); } }
    // the first OFFDIAG shapes are used for the 30 x 30 pairs; all of them (every accepted trace within
    // one deviation of the minimal and maximal base, up to `cap`) for the agreement of the entry points
    let n_first = v.len();
    let texts: std::collections::HashSet<String> = v.iter().map(|m| m.text_lf()).collect();
    for m in ok.into_iter() { if v.len() >= cap { break; } if !texts.contains(&m.text_lf()) { v.push(m); } }
    (v, n_first)
}

fn header_in(code: &str) -> String { format!("{{1:F01BANKBEBBAXXX0000000000}}{{2:I{code}BANKDEFFXXXXN}}") }
fn header_out(code: &str) -> String { format!("{{1:F01BANKBEBBAXXX0000000000}}{{2:O{code}1200240101BANKDEFFAXXX00000000002401011201N}}") }
fn full(hdr: &str, b4: &str) -> String { format!("{hdr}{{4:\n{b4}-}}") }

fn err_class(e: &ParseError) -> String {
    match e {
        ParseError::UnsupportedMessageType { .. } => "unsupported".into(),
        ParseError::SwiftValidation(b) => format!("swift:{}", b.error_code()),
        ParseError::WrongMessageType { .. } => "wrong-type".into(),
        other => format!("other:{}", format!("{other:?}").split(|c: char| !c.is_alphanumeric()).next().unwrap_or("")),
    }
}

pub fn run(ctx: &Ctx) -> i32 {
    let mut ev = Evidence::new("C12", &ctx.tier, "exploration");
    let mut col = Collector::new();
    let mut evals = 0u64; let mut buckets = std::collections::BTreeSet::new(); let mut samples = vec![];
    let mut order = 0u64;
    let mut all_shapes: Vec<(String, Vec<Msg>, usize)> = vec![];
    let cap = if ctx.thorough { 4000 } else { 120 };
    for mt in MT_CODES { let (v, n) = shapes(mt, cap); all_shapes.push((mt.to_string(), v, n)); }
    ev.set("diagonal_shapes", json!(all_shapes.iter().map(|(_, v, _)| v.len()).sum::<usize>()));
    // ---------- 30 x 30 pairs
    for (a, msgs, n_first) in &all_shapes {
        for (si, m) in msgs.iter().enumerate() {
            let text = spec::envelope(a, &m.text_lf());
            // typed reference for the diagonal
            let typed: Option<(Value, String, Vec<String>)> = with_mt!(a.as_str(), T => {
                match guarded(|| SwiftParser::parse::<T>(&text)) {
                    Ok(Ok(p)) => Some((serde_json::to_value(&p).unwrap_or(Value::Null), p.to_mt_message(), p.validate().errors.iter().map(err_code).collect())),
                    _ => None,
                }
            }, else => None);
            let Some((tj, tmt, terrs)) = typed else { continue; };
            for r in MT_CODES {
                if si >= *n_first && { let rr: &str = r; rr != a.as_str() } { continue; }
                order += 1; evals += 1;
                let res = with_mt!(r, R => { match guarded(|| SwiftParser::parse::<R>(&text)) { Ok(Ok(_)) => "ok".to_string(), Ok(Err(e)) => err_class(&e), Err(l) => format!("panic@{}", short_loc(&l)) } }, else => "?".into());
                buckets.insert(format!("typed:{}", if a == r { "diag" } else { res.as_str() }));
                if a == r { if res != "ok" { col.add(format!("C12/typed-parse/{a}->rejected"), order, || res.clone(), || json!({"message": text})); } }
                else if res != "swift:T03" {
                    col.add(format!("C12/typed-parse/{a}->as-{r}:{res}"), order, || format!("typed parse of an MT{a} as MT{r} gave {res}, expected T03 mismatch"), || json!({"message": text, "requested": r}));
                }
            }
            // diagonal: the other four entry points agree with the typed API
            order += 1; evals += 4;
            match guarded(|| SwiftParser::parse_auto(&text)) {
                Ok(Ok(p)) => {
                    if p.message_type() != a { col.add(format!("C12/parse_auto/{a}->{}", p.message_type()), order, || "wrong variant".into(), || json!({"message": text})); }
                    let wj = serde_json::to_value(&p).unwrap_or(Value::Null);
                    if wj.get("mt_type").and_then(|x| x.as_str()) != Some(a.as_str()) { col.add(format!("C12/parse_auto/{a}->mt_type:{}", wj.get("mt_type").map(|x| x.to_string()).unwrap_or_default()), order, || "serde tag differs".into(), || json!({"message": text})); }
                    let mut wj2 = wj.clone(); if let Some(o) = wj2.as_object_mut() { o.remove("mt_type"); }
                    if wj2 != tj { col.add(format!("C12/parse_auto/{a}->json-differs"), order, || "wrapper JSON differs from typed JSON".into(), || json!({"message": text})); }
                    let werrs: Vec<String> = p.validate().errors.iter().map(err_code).collect();
                    if werrs != terrs { col.add(format!("C12/wrapper-validate/{a}->differs"), order, || format!("{werrs:?} vs {terrs:?}"), || json!({"message": text})); }
                }
                Ok(Err(e)) => col.add(format!("C12/parse_auto/{a}->{}", err_class(&e)), order, || format!("{e}"), || json!({"message": text})),
                Err(l) => col.add(format!("C12/parse_auto/{a}->panic@{}", short_loc(&l)), order, || l.clone(), || json!({"message": text})),
            }
            match guarded(|| plugins::parse_mt(&text)) {
                Ok(Ok((d, md))) => {
                    if md.get("message_type").and_then(|x| x.as_str()) != Some(a.as_str()) { col.add(format!("C12/parse_mt/{a}->{}", md.get("message_type").map(|x| x.to_string()).unwrap_or_default()), order, || "metadata.message_type".into(), || json!({"message": text})); }
                    if d != tj { col.add(format!("C12/parse_mt/{a}->json-differs"), order, || "plugin JSON differs from typed JSON".into(), || json!({"message": text})); }
                }
                Ok(Err(e)) => col.add(format!("C12/parse_mt/{a}->error"), order, || e.clone(), || json!({"message": text})),
                Err(l) => col.add(format!("C12/parse_mt/{a}->panic@{}", short_loc(&l)), order, || l.clone(), || json!({"message": text})),
            }
            match guarded(|| plugins::validate_mt(&text)) {
                Ok(Ok(v)) => {
                    if v.get("message_type").and_then(|x| x.as_str()) != Some(a.as_str()) { col.add(format!("C12/validate_mt/{a}->{}", v.get("message_type").map(|x| x.to_string()).unwrap_or_default()), order, || "message_type".into(), || json!({"message": text})); }
                    let valid = v.get("valid").and_then(|x| x.as_bool());
                    if valid != Some(terrs.is_empty()) { col.add(format!("C12/validate_mt/{a}->verdict-differs"), order, || format!("plugin valid={valid:?}, typed errors={terrs:?}"), || json!({"message": text})); }
                }
                Ok(Err(e)) => col.add(format!("C12/validate_mt/{a}->error"), order, || e.clone(), || json!({"message": text})),
                Err(l) => col.add(format!("C12/validate_mt/{a}->panic@{}", short_loc(&l)), order, || l.clone(), || json!({"message": text})),
            }
            for form in [a.to_string(), format!("MT{a}")] {
                let mut j = tj.clone(); j["message_type"] = json!(form);
                match guarded(|| plugins::publish_mt(&j)) {
                    Ok(Ok(s)) => if s != tmt { col.add(format!("C12/publish_mt/{a}->text-differs"), order, || format!("published {:?} vs typed {:?}", s, tmt), || json!({"json": j})); },
                    Ok(Err(e)) => col.add(format!("C12/publish_mt/{a}->error"), order, || e.clone(), || json!({"json": j})),
                    Err(l) => col.add(format!("C12/publish_mt/{a}->panic@{}", short_loc(&l)), order, || l.clone(), || json!({"json": j})),
                }
            }
            if si == 0 && samples.len() < 3 { samples.push(json!({"announced": a, "message": text})); }
        }
    }
    // ---------- all codes 000-999 + non-numeric
    let body103 = all_shapes.iter().find(|(a, _, _)| a == "103").map(|(_, m, _)| m[0].text_lf()).unwrap_or_default();
    let body199 = all_shapes.iter().find(|(a, _, _)| a == "199").map(|(_, m, _)| m[0].text_lf()).unwrap_or_default();
    let mut codes: Vec<String> = (0..1000).map(|n| format!("{:03}", n)).collect();
    codes.extend(["ABC", "1A3", "10X"].iter().map(|s| s.to_string()));
    for code in &codes {
        let supported = MT_CODES.contains(&code.as_str());
        let own = all_shapes.iter().find(|(a, _, _)| a == code).and_then(|(_, m, _)| m.first().map(|m| m.text_lf()));
        let mut bodies: Vec<(&str, String)> = vec![("103-body", body103.clone()), ("199-body", body199.clone())];
        if let Some(o) = own { bodies.push(("own-body", o)); }
        for (bname, body) in &bodies {
            for (hname, hdr) in [("I", header_in(code)), ("O", header_out(code))] {
                order += 1; evals += 4;
                let text = full(&hdr, body);
                let auto = match guarded(|| SwiftParser::parse_auto(&text)) { Ok(Ok(p)) => format!("ok:{}", p.message_type()), Ok(Err(e)) => err_class(&e), Err(l) => format!("panic@{}", short_loc(&l)) };
                let pm = match guarded(|| plugins::parse_mt(&text)) { Ok(Ok((_, md))) => format!("ok:{}", md.get("message_type").and_then(|x| x.as_str()).unwrap_or("?")), Ok(Err(e)) => if e.contains("UnsupportedMessageType") || e.contains("Unsupported message type") { "unsupported".into() } else { "error".into() }, Err(l) => format!("panic@{}", short_loc(&l)) };
                let vm = match guarded(|| plugins::validate_mt(&text)) { Ok(Ok(v)) => { if v.get("valid").and_then(|x| x.as_bool()) == Some(true) { format!("valid:{}", v.get("message_type").and_then(|x| x.as_str()).unwrap_or("?")) } else if v.to_string().contains("Unsupported message type") { "unsupported".into() } else { "invalid".into() } } Ok(Err(_)) => "error".into(), Err(l) => format!("panic@{}", short_loc(&l)) };
                buckets.insert(format!("code:{}:{}:{}", if supported { "supported" } else { "unsupported" }, bname, auto.split('@').next().unwrap_or("")));
                let case = || json!({"code": code, "header": hname, "body": bname, "message": text});
                if !supported && class_of(code) == "non-numeric" {
                    // not a type code at all: the header is malformed (C10); rejecting it as such is as good as
                    // "unsupported" -- what must not happen is that it is treated as some type
                    for (entry, o) in [("parse_auto", &auto), ("parse_mt", &pm), ("validate_mt", &vm)] { if o.starts_with("ok:") || o.starts_with("valid:") || o.starts_with("panic") { col.add(format!("C12/{entry}/non-numeric->{o}"), order, || format!("non-numeric code {code} gave {o}"), case); } }
                } else if !supported {
                    if auto != "unsupported" { col.add(format!("C12/parse_auto/{}->{}", class_of(code), auto), order, || format!("unsupported code {code} gave {auto}"), case); }
                    if pm != "unsupported" { col.add(format!("C12/parse_mt/{}->{}", class_of(code), pm), order, || format!("unsupported code {code} gave {pm}"), case); }
                    if vm != "unsupported" { col.add(format!("C12/validate_mt/{}->{}", class_of(code), vm), order, || format!("unsupported code {code} gave {vm}"), case); }
                } else {
                    // a supported code is never treated as some other type
                    for (entry, o) in [("parse_auto", &auto), ("parse_mt", &pm)] {
                        if let Some(t) = o.strip_prefix("ok:") { if t != code { col.add(format!("C12/{entry}/{code}->{t}"), order, || format!("announced {code}, treated as {t}"), case); } }
                        if *bname == "own-body" && !o.starts_with("ok:") { col.add(format!("C12/{entry}/{code}->{o}:{hname}-header"), order, || format!("valid MT{code} with {hname} header gave {o}"), case); }
                    }
                    if let Some(t) = vm.strip_prefix("valid:") { if t != code { col.add(format!("C12/validate_mt/{code}->{t}"), order, || format!("announced {code}, validated as {t}"), case); } }
                }
            }
        }
        // publish with that message_type
        order += 1; evals += 2;
        for form in [code.clone(), format!("MT{code}")] {
            let j = json!({"message_type": form, "basic_header": {}, "fields": {}});
            let r = match guarded(|| plugins::publish_mt(&j)) { Ok(Ok(_)) => "ok".to_string(), Ok(Err(e)) => if e.contains("Unsupported message type") { "unsupported".into() } else { "error".into() }, Err(l) => format!("panic@{}", short_loc(&l)) };
            if !supported && r != "unsupported" { col.add(format!("C12/publish_mt/{}->{}", class_of(code), r), order, || format!("unsupported code {form} gave {r}"), || json!({"json": j})); }
            if supported && r == "unsupported" { col.add(format!("C12/publish_mt/{code}->unsupported"), order, || format!("supported code {form} reported unsupported"), || json!({"json": j})); }
        }
    }
    ev.set("evaluations", json!(evals));
    ev.set("distinct_nontrivial", json!(buckets.len()));
    ev.set("rule", json!("all 30x30 (announced, requested) pairs x up to 3 accepted message shapes through typed parse; diagonal through parse_auto / wrapper serde / parse_mt / validate_mt / publish_mt (both message_type spellings); every code 000-999 and 3 non-numeric codes in input and output application headers with 2-3 bodies through parse_auto / parse_mt / validate_mt, and as publish_mt message_type; distinct = outcome class per (entry, supportedness, body)"));
    ev.set("exhaustive", json!(true));
    ev.set("pairs", json!(900)); ev.set("codes", json!(codes.len()));
    ev.set("samples", json!(samples));
    ev.assume("shapes are C03-accepted model messages; the typed API SwiftParser::parse::<T> is the reference for the diagonal");
    super::finish(ev, &col)
}

/// the rule code of a ValidationError (texts may legitimately differ in incidental detail; C13 judges stability)
fn err_code(e: &swift_mt_message::ValidationError) -> String {
    match e { swift_mt_message::ValidationError::BusinessRuleValidation { rule_name, .. } => rule_name.clone(), other => format!("{other}") }
}

fn class_of(code: &str) -> String {
    if !code.bytes().all(|b| b.is_ascii_digit()) { return "non-numeric".into(); }
    format!("{}xx-unsupported", &code[0..1])
}

pub fn replay(v: &Value) -> i32 {
    let case = &v["case"];
    if let Some(text) = case.get("message").and_then(|x| x.as_str()) {
        let a = format!("{:?}", guarded(|| SwiftParser::parse_auto(text).map(|p| p.message_type().to_string()).map_err(|e| err_class(&e))));
        let b = format!("{:?}", guarded(|| SwiftParser::parse_auto(text).map(|p| p.message_type().to_string()).map_err(|e| err_class(&e))));
        if a != b { eprintln!("MACHINERY: replay diverged"); return 2; }
        println!("parse_auto: {a}\nparse_mt: {:?}\nvalidate_mt: {:?}", plugins::parse_mt(text).map(|(_, m)| m), plugins::validate_mt(text));
    } else if let Some(j) = case.get("json") {
        println!("publish_mt: {:?}", plugins::publish_mt(j));
    }
    println!("recorded: {}", v["what"]);
    0
}
