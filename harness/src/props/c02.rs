//! C02 — MT round trip is stable: re-parsing serialised output gives the same message,
//! and the serialised text is a fixed point.
use crate::common::{ev::Evidence, findings::Collector, guard::guarded, par};
use crate::spec::{families::FAMILIES, m1};
use crate::{with_field, with_mt, Ctx};
use serde_json::{json, Value};
use swift_mt_message::{SwiftField, SwiftParser};

/// first differing path between two JSON values (sequence indices collapsed)
pub fn first_diff(a: &Value, b: &Value, path: &str) -> Option<String> {
    match (a, b) {
        (Value::Object(x), Value::Object(y)) => {
            let mut keys: Vec<&String> = x.keys().chain(y.keys()).collect(); keys.sort(); keys.dedup();
            for k in keys { let (p, q) = (x.get(k).unwrap_or(&Value::Null), y.get(k).unwrap_or(&Value::Null)); if let Some(d) = first_diff(p, q, &format!("{path}.{k}")) { return Some(d); } }
            None
        }
        (Value::Array(x), Value::Array(y)) => {
            if x.len() != y.len() { return Some(format!("{path}[len]")); }
            for (p, q) in x.iter().zip(y) { if let Some(d) = first_diff(p, q, &format!("{path}[]")) { return Some(d); } }
            None
        }
        _ => if a == b { None } else { Some(path.to_string()) },
    }
}

pub enum Rt { NotAccepted, Ok, Fail(&'static str, String, String) }

pub fn roundtrip(mt: &str, text: &str) -> Rt {
    with_mt!(mt, T => {
        let m1 = match guarded(|| SwiftParser::parse::<T>(text)) { Ok(Ok(m)) => m, _ => return Rt::NotAccepted };
        let s1 = match guarded(|| m1.to_mt_message()) { Ok(s) => s, Err(_) => return Rt::NotAccepted };
        let m2 = match guarded(|| SwiftParser::parse::<T>(&s1)) { Ok(Ok(m)) => m, Ok(Err(e)) => return Rt::Fail("reparse-fails", super::c03::err_tag(&e), format!("{e}; serialised: {s1:?}")), Err(_) => return Rt::NotAccepted };
        let (j1, j2) = (serde_json::to_value(&m1).unwrap_or(Value::Null), serde_json::to_value(&m2).unwrap_or(Value::Null));
        if let Some(d) = first_diff(&j1, &j2, "") { return Rt::Fail("model-differs", d.trim_start_matches('.').to_string(), format!("first parse {} / second parse {}", j1, j2)); }
        if format!("{:?}", m1) != format!("{:?}", m2) { return Rt::Fail("model-differs", "debug".into(), "Debug renderings differ".into()); }
        let s2 = m2.to_mt_message();
        if s2 != s1 { return Rt::Fail("text-not-fixpoint", "message".into(), format!("{s1:?} then {s2:?}")); }
        Rt::Ok
    }, else => Rt::NotAccepted)
}

/// generic single-character edits of a string (insert / delete / substitute class representatives)
pub fn string_mutations(s: &str) -> Vec<String> {
    let reps = ['A', 'a', '1', '/', ',', '.', '-', ':', '+', ' ', '\n'];
    let cs: Vec<char> = s.chars().collect();
    let mut out = vec![];
    for i in 0..=cs.len() {
        for r in reps { let mut v = cs.clone(); v.insert(i, r); out.push(v.iter().collect()); }
        if i < cs.len() {
            let mut v = cs.clone(); v.remove(i); out.push(v.iter().collect());
            for r in reps { if cs[i] != r { let mut v = cs.clone(); v[i] = r; out.push(v.iter().collect()); } }
        }
    }
    out
}

struct Acc { col: Collector, accepted: u64, rejected: u64, evals: u64, shapes: std::collections::HashSet<String> }

pub fn run(ctx: &Ctx) -> i32 {
    let mut ev = Evidence::new("C02", &ctx.tier, "exploration");
    let (plans, stats) = super::rt::plan(ctx);
    let alphabet = crate::spec::mutate::alphabet();
    let np = plans.len();
    let accs = par::par_for(np, 1, || Acc { col: Collector::new(), accepted: 0, rejected: 0, evals: 0, shapes: Default::default() }, |i, a| {
        for (j, inp) in super::rt::expand(&plans[i], ctx, &alphabet).iter().enumerate() {
            a.evals += 1;
            match roundtrip(inp.mt, &inp.text) {
                Rt::NotAccepted => a.rejected += 1,
                Rt::Ok => { a.accepted += 1; a.shapes.insert(format!("{}:{}", inp.mt, inp.label.split(':').take(2).collect::<Vec<_>>().join(":"))); }
                Rt::Fail(clause, locus, detail) => {
                    a.accepted += 1;
                    a.col.add(format!("C02/MT{}/{clause}/{locus}", inp.mt), (i as u64) * 1_000_000 + j as u64, || detail.clone(), || json!({"mt": inp.mt, "label": inp.label, "message": inp.text}));
                }
            }
        }
    });
    let n: u64 = accs.iter().map(|a| a.evals).sum();
    let mut col = Collector::new(); let (mut acc, mut rej) = (0u64, 0u64); let mut shapes = std::collections::HashSet::new();
    for a in accs { col.merge(a.col); acc += a.accepted; rej += a.rejected; shapes.extend(a.shapes); }
    // self-check against vacuity: every envelope variant must have been accepted and round-tripped for some type
    for w in &super::rt::WRAPS[1..] {
        if !shapes.iter().any(|sh| sh.ends_with(&format!(":envelope:{w}"))) && !col.map.keys().any(|k| k.contains("/MT")) {
            eprintln!("MACHINERY: envelope variant {w} was never accepted by the library -- the variant is malformed");
            return 2;
        }
    }
    // ---- field level: all 114 registered types
    let mut fjobs: Vec<(&'static str, Option<&'static str>, String)> = vec![]; // (registry type, family number, content)
    for k in m1::kinds() {
        let mut cands: Vec<String> = (k.insts)().into_iter().map(|x| x.1).collect();
        for c in cands.clone() { for (_, v) in super::rt::noncanon(k.tag, &c) { cands.push(v); } }
        let base = cands.clone();
        for (bi, c) in base.iter().enumerate() { if ctx.thorough || bi < 2 { cands.extend(string_mutations(c)); } }
        cands.sort(); cands.dedup();
        for c in cands { fjobs.push((k.ty, None, c)); }
    }
    for (ty, num, kinds) in FAMILIES {
        let mut cands: Vec<String> = vec![];
        for kd in kinds.iter() { if let Some(k) = m1::kind(kd) { cands.extend((k.insts)().into_iter().map(|x| x.1)); } }
        cands.sort(); cands.dedup();
        for c in cands { fjobs.push((ty, Some(num), c)); }
    }
    let fn_ = fjobs.len();
    let faccs = par::par_for(fn_, 256, || Acc { col: Collector::new(), accepted: 0, rejected: 0, evals: 0, shapes: Default::default() }, |i, a| {
        let (ty, fam, c) = &fjobs[i];
        if !c.is_ascii() { return; }
        with_field!(*ty, T => {
            let f1 = match guarded(|| <T as SwiftField>::parse(c)) { Ok(Ok(f)) => f, _ => { a.rejected += 1; return; } };
            a.accepted += 1;
            let s = f1.to_swift_string();
            let mut it = s.splitn(3, ':'); it.next(); let tag = it.next().unwrap_or("").to_string(); let body = it.next().unwrap_or("").to_string();
            let letter: Option<String> = fam.map(|n| tag[n.len().min(tag.len())..].to_string());
            let f2 = match &letter { Some(l) => guarded(|| <T as SwiftField>::parse_with_variant(&body, if l.is_empty() { None } else { Some(l.as_str()) }, *fam)), None => guarded(|| <T as SwiftField>::parse(&body)) };
            let case = || json!({"field": ty, "content": c});
            match f2 {
                Ok(Ok(f2)) => {
                    if format!("{:?}", f2) != format!("{:?}", f1) { a.col.add(format!("C02/{ty}/model-differs/field"), i as u64, || format!("{:?} then {:?}", f1, f2), case); }
                    else if f2.to_swift_string() != s { a.col.add(format!("C02/{ty}/text-not-fixpoint/field"), i as u64, || format!("{s:?} then {:?}", f2.to_swift_string()), case); }
                    else { a.shapes.insert(format!("{ty}:{}", c.len().min(12))); }
                }
                Ok(Err(e)) => a.col.add(format!("C02/{ty}/reparse-fails/field"), i as u64, || format!("own output {body:?} rejected: {e}"), case),
                Err(_) => {}
            }
        }, else => {});
    });
    let (mut facc, mut frej) = (0u64, 0u64);
    for a in faccs { col.merge(a.col); facc += a.accepted; frej += a.rejected; shapes.extend(a.shapes); }
    ev.set("evaluations", json!(n + fn_ as u64));
    ev.set("messages", json!({"inputs": n, "accepted_and_round_tripped": acc, "not_accepted": rej, "per_type": stats}));
    ev.set("fields", json!({"candidate_contents": fn_, "accepted_and_round_tripped": facc, "not_accepted": frej}));
    ev.set("distinct_nontrivial", json!(shapes.len()));
    ev.set("rule", json!("messages: every model-generated message (C03 regime), 6 envelope variants (CRLF, blocks 3/5, all documented block-3/5 tags, output application header with/without priority, 11-char BICs), every non-canonical amount/number spelling and every other boundary instance at every position of the base messages, and every single structural mutation the library accepts; fields: all M1 instances, their non-canonical spellings and every single-character insertion/deletion/substitution of them, for all 114 registered types (families re-parsed with the letter they serialise). Only accepted inputs are judged; distinct = (type, input class) of accepted inputs"));
    ev.set("samples", json!(plans.iter().step_by((np / 3).max(1)).take(3).flat_map(|p| super::rt::expand(p, ctx, &alphabet).into_iter().take(2)).map(|i| json!({"mt": i.mt, "label": i.label, "message": i.text})).collect::<Vec<_>>()));
    ev.set("exhaustive", json!(false));
    ev.assume("accept/reject of the inputs is judged by C01/C03/C05, not here");
    super::finish(ev, &col)
}

pub fn replay(v: &Value) -> i32 {
    let c = &v["case"];
    if let Some(mt) = c.get("mt").and_then(|x| x.as_str()) {
        let text = c["message"].as_str().unwrap_or("");
        let d = |r: Rt| match r { Rt::NotAccepted => "not accepted".to_string(), Rt::Ok => "round trip ok".into(), Rt::Fail(a, b, c) => format!("{a}/{b}: {c}") };
        let (a, b) = (d(roundtrip(mt, text)), d(roundtrip(mt, text)));
        if a != b { eprintln!("MACHINERY: replay diverged"); return 2; }
        println!("{text}\nobserved: {a}");
    } else { return super::c11::replay(v); }
    0
}
