//! Shared corpus of accepted inputs for the round-trip properties C02 (MT) and C08 (JSON):
//! canonical model messages, their non-canonical spellings, envelope variants, accepted mutants.
use crate::common::tok::{self, Tok};
use crate::spec::{corpus::corpus, m1, m2::Msg, mutate};
use crate::Ctx;
use regex::Regex;

pub struct Input { pub mt: &'static str, pub label: String, pub text: String }

const AMOUNT_KINDS: [&str; 19] = ["19", "32A", "32B", "32C", "32D", "33B", "34F", "36", "37H", "60F", "60M", "61", "62F", "62M", "64", "65", "71F", "71G", "90C"];

/// equivalent non-canonical spellings of one field content
pub fn noncanon(kind: &str, content: &str) -> Vec<(&'static str, String)> {
    let mut v = vec![];
    if AMOUNT_KINDS.contains(&kind) || kind == "90D" {
        let re = Regex::new(r"(\d+),(\d*)").unwrap();
        if let Some(m) = re.captures(content) {
            let (whole, int, dec) = (m.get(0).unwrap(), &m[1], &m[2]);
            let put = |s: String| format!("{}{}{}", &content[..whole.start()], s, &content[whole.end()..]);
            let trimmed = dec.trim_end_matches('0');
            if trimmed != dec { v.push(("amount-short-decimals", put(format!("{int},{trimmed}")))); }
            if kind != "61" && kind != "90C" && kind != "90D" && kind != "11" { v.push(("amount-leading-zero", put(format!("0{int},{dec}")))); }
            // length boundaries of the nd format, with and without the separator (15d; 17d for field 19, 12d for rates)
            let n = match kind { "19" => 17usize, "36" | "37H" => 12, _ => 15 };
            for (name, digits) in [("amount-full-length-no-separator", n), ("amount-one-short-no-separator", n - 1)] { v.push((name, put("9".repeat(digits)))); }
            v.push(("amount-full-length-integer", put(format!("{},", "9".repeat(n - 1)))));
            v.push(("amount-full-length-one-decimal", put(format!("{},5", "9".repeat(n - 2)))));
        }
    }
    match kind {
        "28" | "28C" | "28D" => {
            let parts: Vec<&str> = content.split('/').collect();
            let z: Vec<String> = parts.iter().map(|p| format!("{:0>5}", p)).collect();
            if z.join("/") != content { v.push(("number-leading-zeros", z.join("/"))); }
        }
        _ => {}
    }
    v
}

fn wrap(mt: &str, b4: &str, variant: &str) -> String {
    let crlf = b4.replace('\n', "\r\n");
    match variant {
        "lf" => format!("{{1:F01BANKBEBBAXXX0000000000}}{{2:I{mt}BANKDEFFXXXXN}}{{4:\n{b4}-}}"),
        "crlf" => format!("{{1:F01BANKBEBBAXXX0000000000}}{{2:I{mt}BANKDEFFXXXXN}}{{4:\r\n{crlf}-}}"),
        "blocks35" => format!("{{1:F01BANKBEBBAXXX0000000000}}{{2:I{mt}BANKDEFFXXXXN}}{{3:{{113:URGT}}{{108:MUR123}}{{121:3c8c5a1e-7a3b-4b5e-9f1a-1d2e3f4a5b6c}}}}{{4:\n{b4}-}}{{5:{{CHK:123456789ABC}}{{TNG}}}}"),
        "block3-all" => format!("{{1:F01BANKBEBBAXXX0000000000}}{{2:I{mt}BANKDEFFXXXXU3003}}{{3:{{103:EBA}}{{113:URGT}}{{108:MUR123}}{{119:STP}}{{423:240719123045}}{{106:240719BANKBEBBAXXX0000000000}}{{424:RELREF}}{{111:001}}{{121:3c8c5a1e-7a3b-4b5e-9f1a-1d2e3f4a5b6c}}{{115:ADDRESSEE INFO}}{{165:TPS/INFO}}{{433:AOK/SCREENED}}{{434:FPO/CONTROL}}}}{{4:\n{b4}-}}{{5:{{CHK:123456789ABC}}{{TNG}}{{PDE:1348120811BANKFRPPAXXX2222123456}}{{DLM}}{{MRF:1806271539180626BANKFRPPAXXX2222123456}}{{PDM:1213120811BANKFRPPAXXX2222123456}}{{SYS:1454120811BANKFRPPAXXX2222123456}}{{MAC:00000000}}}}"),
        "output-header" => format!("{{1:F01BANKBEBBAXXX0000000000}}{{2:O{mt}1200240101BANKDEFFAXXX00000000002401011201N}}{{4:\n{b4}-}}"),
        "output-header-no-priority" => format!("{{1:F01BANKBEBBAXXX0000000000}}{{2:O{mt}1200240101BANKDEFFAXXX00000000002401011201}}{{4:\n{b4}-}}"),
        "block5-empty-values" => format!("{{1:F01BANKBEBBAXXX0000000000}}{{2:I{mt}BANKDEFFXXXXN}}{{4:\n{b4}-}}{{5:{{CHK:123456789ABC}}{{PDE:}}{{PDM:1213}}{{SYS:}}}}"),
        "block5-empty" => format!("{{1:F01BANKBEBBAXXX0000000000}}{{2:I{mt}BANKDEFFXXXXN}}{{4:\n{b4}-}}{{5:}}"),
        "block5-unknown-tag" => format!("{{1:F01BANKBEBBAXXX0000000000}}{{2:I{mt}BANKDEFFXXXXN}}{{4:\n{b4}-}}{{5:{{TNG:}}{{XYZ:ABC}}}}"),
        "bic11" => format!("{{1:F01BANKBEBBA1230000000000}}{{2:I{mt}BANKDEFFX123N2020}}{{4:\n{b4}-}}"),
        _ => unreachable!(),
    }
}
pub const WRAPS: [&str; 10] = ["lf", "crlf", "blocks35", "block3-all", "block5-empty-values", "block5-empty", "block5-unknown-tag", "output-header", "output-header-no-priority", "bic11"];

pub struct Plan { pub mt: &'static str, pub msg: Msg, pub expand: bool }

/// the work list: every model message (canonical input); base messages are expanded by `expand`
pub fn plan(ctx: &Ctx) -> (Vec<Plan>, serde_json::Value) {
    let (d, cap) = if ctx.thorough { (2u32, 100_000u64) } else { (1u32, 5_000u64) };
    let per: Vec<Vec<(Vec<Plan>, serde_json::Value)>> = crate::common::par::par_for(crate::common::reg::MT_CODES.len(), 1, Vec::new, |i, acc: &mut Vec<(Vec<Plan>, serde_json::Value)>| {
        let mt = crate::common::reg::MT_CODES[i];
        let (msgs, st) = corpus(mt, d, cap);
        let n = msgs.len();
        let plans: Vec<Plan> = msgs.into_iter().map(|m| { let expand = m.deviations == 0; Plan { mt: st.mt, msg: m, expand } }).collect();
        acc.push((plans, serde_json::json!({"mt": mt, "model_messages": n, "regime": st.regime})));
    });
    let mut all: Vec<(Vec<Plan>, serde_json::Value)> = per.into_iter().flatten().collect();
    all.sort_by_key(|(p, _)| p.first().map(|x| x.mt).unwrap_or(""));
    let mut plans = vec![]; let mut stats = vec![];
    for (p, s) in all { plans.extend(p); stats.push(s); }
    (plans, serde_json::json!(stats))
}

/// all inputs derived from one plan entry
pub fn expand(p: &Plan, ctx: &Ctx, alphabet: &[Tok]) -> Vec<Input> {
    let mt = p.mt; let b = &p.msg;
    let mut out = vec![Input { mt, label: format!("canonical:{}", b.devs.join("+")), text: wrap(mt, &b.text_lf(), "lf") }];
    if !p.expand {
        // one-deviation messages: CRLF rendering and the non-canonical spellings of their fields only
        if b.deviations == 1 {
            out.push(Input { mt, label: format!("envelope:crlf:{}", b.devs.join("+")), text: wrap(mt, &b.text_lf(), "crlf") });
            let toks = b.toks();
            for (pos, o) in b.occs.iter().enumerate() { for (name, alt) in noncanon(&o.kind, &o.content) { let mut t = toks.clone(); t[pos].content = alt; out.push(Input { mt, label: format!("noncanon:{name}:{}", o.tag), text: wrap(mt, &tok::render_lf(&t), "lf") }); } }
        }
        return out;
    }
    // envelope variants and non-canonical field spellings of the base message
    for w in &WRAPS[1..] { out.push(Input { mt, label: format!("envelope:{w}:{}", b.base), text: wrap(mt, &b.text_lf(), w) }); }
    let toks = b.toks();
    for (pos, o) in b.occs.iter().enumerate() {
        for (name, alt) in noncanon(&o.kind, &o.content) {
            let mut t = toks.clone(); t[pos].content = alt;
            out.push(Input { mt, label: format!("noncanon:{name}:{}", o.tag), text: wrap(mt, &tok::render_lf(&t), "lf") });
        }
        // every other M1 instance of the kind at this position
        if let Some(k) = m1::kind(&o.kind) { for (cls, inst) in (k.insts)() { if inst != o.content { let mut t = toks.clone(); t[pos].content = inst; out.push(Input { mt, label: format!("instance:{}[{cls}]", o.tag), text: wrap(mt, &tok::render_lf(&t), "lf") }); } } }
    }
    // single mutations (whatever the library accepts of them is part of the corpus)
    if b.base == "min" || ctx.thorough {
        for m in mutate::single_mutations(&toks, alphabet, ctx.thorough || toks.len() <= 8) {
            if !m.toks.iter().all(|t: &Tok| t.content.is_ascii()) { continue; }
            out.push(Input { mt, label: format!("mutant:{}", m.desc), text: wrap(mt, &tok::render_lf(&m.toks), "lf") });
        }
    }
    out
}
