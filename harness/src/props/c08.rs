//! C08 — JSON conversion is lossless and agrees with the MT serialisation.
use crate::common::{ev::Evidence, findings::Collector, guard::guarded, par, plugins};
use crate::spec::{families::FAMILIES, m1};
use crate::{with_field, with_mt, Ctx};
use serde_json::{json, Value};
use swift_mt_message::{ParsedSwiftMessage, SwiftField, SwiftMessage, SwiftParser};

fn placeholders(v: &Value, path: &str, out: &mut Vec<String>) {
    match v {
        Value::String(s) if s.is_empty() => out.push(format!("{path}:\"\"")),
        Value::Object(m) => { if m.is_empty() { out.push(format!("{path}:{{}}")); } for (k, x) in m { placeholders(x, &format!("{path}.{k}"), out); } }
        Value::Array(a) => { if a.is_empty() { out.push(format!("{path}:[]")); } for x in a { placeholders(x, &format!("{path}[]"), out); } }
        _ => {}
    }
}
fn null_numbers(v: &Value, path: &str, out: &mut Vec<String>) {
    match v {
        Value::Object(m) => for (k, x) in m { if (k == "amount" || k == "rate") && x.is_null() { out.push(format!("{path}.{k}")); } null_numbers(x, &format!("{path}.{k}"), out); },
        Value::Array(a) => for x in a { null_numbers(x, &format!("{path}[]"), out); },
        _ => {}
    }
}

pub enum J { NotAccepted, Ok, Fail(&'static str, String, String) }

pub fn json_roundtrip(mt: &str, text: &str) -> J {
    with_mt!(mt, T => {
        let m = match guarded(|| SwiftParser::parse::<T>(text)) { Ok(Ok(m)) => m, _ => return J::NotAccepted };
        let j = match guarded(|| serde_json::to_value(&m)) { Ok(Ok(j)) => j, Ok(Err(e)) => return J::Fail("from-json-fails", "to_value".into(), e.to_string()), Err(_) => return J::NotAccepted };
        let mut nn = vec![]; null_numbers(&j, "", &mut nn);
        if let Some(p) = nn.first() { return J::Fail("non-finite", p.trim_start_matches('.').to_string(), format!("{j}")); }
        let mut ph = vec![]; placeholders(j.get("fields").unwrap_or(&Value::Null), "fields", &mut ph);
        if let Some(p) = ph.first() { if !text.contains(":\n") && !text.contains(":\r\n") { return J::Fail("placeholder", p.clone(), format!("{j}")); } }
        let back: SwiftMessage<T> = match guarded(|| serde_json::from_value::<SwiftMessage<T>>(j.clone())) { Ok(Ok(b)) => b, Ok(Err(e)) => return J::Fail("from-json-fails", "from_value".into(), format!("{e}; json {j}")), Err(l) => return J::Fail("from-json-fails", format!("panic@{}", crate::common::guard::short_loc(&l)), l) };
        let j2 = serde_json::to_value(&back).unwrap_or(Value::Null);
        if let Some(d) = super::c02::first_diff(&j, &j2, "") { return J::Fail("json-not-stable", d.trim_start_matches('.').to_string(), format!("{j} then {j2}")); }
        if format!("{:?}", back) != format!("{:?}", m) { return J::Fail("model-differs", "debug".into(), format!("{:?} vs {:?}", m, back)); }
        let direct = m.to_mt_message();
        match guarded(|| plugins::publish_mt(&j)) {
            Ok(Ok(p)) => if p != direct { return J::Fail("publish-differs", "text".into(), format!("published {p:?} vs direct {direct:?}")); },
            Ok(Err(e)) => return J::Fail("publish-differs", "error".into(), format!("{e}; json {j}")),
            Err(l) => return J::Fail("publish-differs", format!("panic@{}", crate::common::guard::short_loc(&l)), l),
        }
        // auto-detected wrapper
        match guarded(|| SwiftParser::parse_auto(text)) {
            Ok(Ok(w)) => {
                let wj = serde_json::to_value(&w).unwrap_or(Value::Null);
                match serde_json::from_value::<ParsedSwiftMessage>(wj.clone()) {
                    Ok(w2) => { if w2.message_type() != mt { return J::Fail("model-differs", "wrapper.mt_type".into(), w2.message_type().to_string()); } if serde_json::to_value(&w2).unwrap_or(Value::Null) != wj { return J::Fail("json-not-stable", "wrapper".into(), "wrapper JSON changes on a round trip".into()); } }
                    Err(e) => return J::Fail("from-json-fails", "wrapper".into(), e.to_string()),
                }
            }
            _ => return J::Fail("model-differs", "wrapper.parse_auto".into(), "typed parse accepts, parse_auto does not".into()),
        }
        J::Ok
    }, else => J::NotAccepted)
}

struct Acc { col: Collector, accepted: u64, rejected: u64, evals: u64, shapes: std::collections::HashSet<String> }

pub fn run(ctx: &Ctx) -> i32 {
    let mut ev = Evidence::new("C08", &ctx.tier, "exploration");
    let (plans, stats) = super::rt::plan(ctx);
    let alphabet = crate::spec::mutate::alphabet();
    let np = plans.len();
    let accs = par::par_for(np, 1, || Acc { col: Collector::new(), accepted: 0, rejected: 0, evals: 0, shapes: Default::default() }, |i, a| {
        for (j, inp) in super::rt::expand(&plans[i], ctx, &alphabet).iter().enumerate() {
            // mutants are C02's corpus; here: canonical, envelope, spellings, instances
            if inp.label.starts_with("mutant:") && !inp.label.starts_with("mutant:dup") && !inp.label.starts_with("mutant:append") { continue; }
            a.evals += 1;
            match json_roundtrip(inp.mt, &inp.text) {
                J::NotAccepted => a.rejected += 1,
                J::Ok => { a.accepted += 1; a.shapes.insert(format!("{}:{}", inp.mt, inp.label.split(':').take(2).collect::<Vec<_>>().join(":"))); }
                J::Fail(clause, locus, detail) => { a.accepted += 1; a.col.add(format!("C08/MT{}/{clause}/{locus}", inp.mt), (i as u64) * 1_000_000 + j as u64, || detail.clone(), || json!({"mt": inp.mt, "label": inp.label, "message": inp.text})); }
            }
        }
    });
    let mut col = Collector::new(); let (mut acc, mut rej, mut n) = (0u64, 0u64, 0u64); let mut shapes = std::collections::HashSet::new();
    for a in accs { col.merge(a.col); acc += a.accepted; rej += a.rejected; n += a.evals; shapes.extend(a.shapes); }
    // ---- field level
    let mut fjobs: Vec<(&'static str, String)> = vec![];
    for k in m1::kinds() {
        let mut cands: Vec<String> = (k.insts)().into_iter().map(|x| x.1).collect();
        for c in cands.clone() { for (_, v) in super::rt::noncanon(k.tag, &c) { cands.push(v); } }
        let base = cands.clone();
        for (bi, c) in base.iter().enumerate() { if ctx.thorough || bi < 2 { cands.extend(super::c02::string_mutations(c)); } }
        cands.sort(); cands.dedup();
        for c in cands { fjobs.push((k.ty, c)); }
    }
    for (ty, _num, kinds) in FAMILIES {
        let mut cands: Vec<String> = vec![];
        for kd in kinds.iter() { if let Some(k) = m1::kind(kd) { cands.extend((k.insts)().into_iter().map(|x| x.1)); } }
        cands.sort(); cands.dedup();
        for c in cands { fjobs.push((ty, c)); }
    }
    let fnn = fjobs.len();
    let faccs = par::par_for(fnn, 256, || Acc { col: Collector::new(), accepted: 0, rejected: 0, evals: 0, shapes: Default::default() }, |i, a| {
        let (ty, c) = &fjobs[i];
        if !c.is_ascii() { return; }
        with_field!(*ty, T => {
            let f = match guarded(|| <T as SwiftField>::parse(c)) { Ok(Ok(f)) => f, _ => { a.rejected += 1; return; } };
            a.accepted += 1;
            let case = || json!({"field": ty, "content": c});
            let j = match serde_json::to_value(&f) { Ok(j) => j, Err(e) => { a.col.add(format!("C08/{ty}/from-json-fails/to_value"), i as u64, || e.to_string(), case); return; } };
            let mut nn = vec![]; null_numbers(&j, "", &mut nn);
            if !nn.is_empty() { a.col.add(format!("C08/{ty}/non-finite/field"), i as u64, || format!("{j}"), case); return; }
            match guarded(|| serde_json::from_value::<T>(j.clone())) {
                Ok(Ok(f2)) => {
                    if format!("{:?}", f2) != format!("{:?}", f) { a.col.add(format!("C08/{ty}/model-differs/field"), i as u64, || format!("{:?} vs {:?}", f, f2), case); }
                    else if f2.to_swift_string() != f.to_swift_string() { a.col.add(format!("C08/{ty}/model-differs/mt-text"), i as u64, || format!("{} vs {}", f.to_swift_string(), f2.to_swift_string()), case); }
                    else { a.shapes.insert(format!("{ty}:{}", c.len().min(12))); }
                }
                Ok(Err(e)) => a.col.add(format!("C08/{ty}/from-json-fails/field"), i as u64, || format!("{e}; json {j}"), case),
                Err(l) => a.col.add(format!("C08/{ty}/from-json-fails/panic"), i as u64, || l.clone(), case),
            }
        }, else => {});
    });
    let (mut facc, mut frej) = (0u64, 0u64);
    for a in faccs { col.merge(a.col); facc += a.accepted; frej += a.rejected; shapes.extend(a.shapes); }
    ev.set("evaluations", json!(n + fnn as u64));
    ev.set("messages", json!({"inputs": n, "accepted_and_judged": acc, "not_accepted": rej, "per_type": stats}));
    ev.set("fields", json!({"candidate_contents": fnn, "accepted_and_judged": facc, "not_accepted": frej}));
    ev.set("distinct_nontrivial", json!(shapes.len()));
    ev.set("rule", json!("every accepted input of the round-trip corpus (model messages in the C03 regime, envelope variants with all documented block-3/5 tags and output headers, non-canonical spellings, all boundary instances incl. dates across the century window and every currency precision): to_value -> from_value -> to_value stable and Debug-equal, publish_mt(JSON) == to_mt_message(), ParsedSwiftMessage wrapper round trip, no empty placeholders, no non-finite numbers; field level the same for all 114 types over instances and their single-character edits"));
    ev.set("samples", json!(plans.iter().step_by((np / 3).max(1)).take(3).map(|p| json!({"mt": p.mt, "block4": p.msg.text_lf()})).collect::<Vec<_>>()));
    ev.set("exhaustive", json!(false));
    ev.assume("repeated fields / sequences carry distinct contents per occurrence (instance rotation), so order changes show up as JSON differences");
    super::finish(ev, &col)
}

pub fn replay(v: &Value) -> i32 {
    let c = &v["case"];
    if let Some(mt) = c.get("mt").and_then(|x| x.as_str()) {
        let text = c["message"].as_str().unwrap_or("");
        let d = |r: J| match r { J::NotAccepted => "not accepted".to_string(), J::Ok => "ok".into(), J::Fail(a, b, c) => format!("{a}/{b}: {c}") };
        let (a, b) = (d(json_roundtrip(mt, text)), d(json_roundtrip(mt, text)));
        if a != b { eprintln!("MACHINERY: replay diverged"); return 2; }
        println!("{text}\nobserved: {a}");
        0
    } else { super::c11::replay(v) }
}
