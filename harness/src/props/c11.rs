//! C11 — dates and times: calendar-valid only, one meaning everywhere, round-trip stable.
//! Truly exhaustive: all 10^6 six-digit strings through every date-bearing field parser,
//! all 10^4 HHMM strings, all 2x10^4 signed offsets, all 10^4 MMDD entry dates of field 61.
use crate::common::{ev::Evidence, findings::Collector, guard::guarded, par};
use crate::spec::m1;
use crate::{with_field, Ctx};
use serde_json::{json, Value};
use swift_mt_message::SwiftField;

/// (M1 kind, registry type, prefix, suffix, JSON carries the date as yymmdd only)
const DATE_FIELDS: [(&str, &str, &str, &str, bool); 16] = [
    ("11", "Field11", "103", "", false), ("11R", "Field11R", "103", "", false), ("11S", "Field11S", "103", "", false),
    ("13D", "Field13D", "", "1230+0100", true), ("30", "Field30", "", "", false),
    ("32A", "Field32A", "", "USD1000,50", false), ("32C", "Field32C", "", "USD1000,50", false), ("32D", "Field32D", "", "USD1000,50", false),
    ("60F", "Field60F", "C", "USD1234,56", false), ("60M", "Field60M", "C", "USD1234,56", false),
    ("61", "Field61", "", "D1234,56NTRFREF123", false),
    ("62F", "Field62F", "C", "USD1234,56", false), ("62M", "Field62M", "C", "USD1234,56", false),
    ("64", "Field64", "C", "USD1234,56", false), ("65", "Field65", "C", "USD1234,56", false),
    ("30", "Field30", "", "", false),
];

fn string_leaves(v: &Value, out: &mut Vec<String>) {
    match v { Value::String(s) => out.push(s.clone()), Value::Array(a) => for x in a { string_leaves(x, out) }, Value::Object(m) => for (_, x) in m { string_leaves(x, out) }, _ => {} }
}

fn invalid_class(d: &str) -> &'static str {
    let m: u32 = d[2..4].parse().unwrap_or(99); let day: u32 = d[4..6].parse().unwrap_or(99);
    if m == 0 { "month=00" } else if m > 12 { "month>12" } else if day == 0 { "day=00" } else if m == 2 && day == 29 { "feb29-non-leap" } else { "day>days-in-month" }
}

/// one probe of a date-bearing field: returns Some((clause, detail)) on a violation
fn probe_date(ty: &str, content: &str, digits: &str, json_short: bool) -> (bool, Option<(String, String)>) {
    let expected = m1::date6(digits);
    with_field!(ty, T => {
        let r = match guarded(|| <T as SwiftField>::parse(content)) { Ok(r) => r, Err(_) => return (false, None) /* panics are C07's */ };
        match (r, expected) {
            (Err(_), None) => (false, None),
            (Err(e), Some(_)) => (false, Some(("valid-rejected".into(), format!("{e}")))),
            (Ok(_), None) => (true, Some((format!("invalid-accepted:{}", if digits.bytes().all(|b| b.is_ascii_digit()) { invalid_class(digits) } else { "non-digit" }), "accepted".into()))),
            (Ok(f), Some((y, mo, d))) => {
                let decade = format!("yy={}x", &digits[0..1]);
                let s = f.to_swift_string();
                let body = s.splitn(3, ':').nth(2).unwrap_or("");
                if body != content { return (true, Some(("mt-roundtrip".into(), format!("serialised as {body:?}")))); }
                let j = match serde_json::to_value(&f) { Ok(j) => j, Err(e) => return (true, Some(("json-roundtrip:serialize".into(), e.to_string()))) };
                let mut ls = vec![]; string_leaves(&j, &mut ls);
                let iso = format!("{:04}-{:02}-{:02}", y, mo, d);
                if !json_short {
                    if !ls.iter().any(|l| *l == iso) {
                        let other = ls.iter().find(|l| l.len() == 10 && l.ends_with(&iso[4..])).cloned().unwrap_or_default();
                        return (true, Some((format!("meaning-differs:{decade}"), format!("documented pivot gives {iso}, JSON says {other}"))));
                    }
                } else if !ls.iter().any(|l| l == digits) {
                    return (true, Some((format!("json-roundtrip:{decade}"), format!("JSON {j} lacks the digits"))));
                }
                match serde_json::from_value::<T>(j.clone()) {
                    Err(e) => (true, Some((format!("json-roundtrip:{decade}"), format!("from_value failed: {e}")))),
                    Ok(f2) => {
                        if format!("{:?}", f2) != format!("{:?}", f) { return (true, Some((format!("json-roundtrip:{decade}"), format!("{:?} became {:?}", f, f2)))); }
                        if f2.to_swift_string() != s { return (true, Some((format!("json-roundtrip:{decade}"), format!("re-serialised as {}", f2.to_swift_string())))); }
                        (true, None)
                    }
                }
            }
        }
    }, else => (false, None))
}

fn probe_simple(ty: &str, content: &str, expected_ok: bool, clause_ok: &str, clause_bad: &str) -> (bool, Option<(String, String)>) {
    with_field!(ty, T => {
        let r = match guarded(|| <T as SwiftField>::parse(content)) { Ok(r) => r, Err(_) => return (false, None) };
        match (r, expected_ok) {
            (Err(_), false) => (false, None),
            (Err(e), true) => (false, Some((clause_bad.to_string(), format!("{e}")))),
            (Ok(_), false) => (true, Some((clause_ok.to_string(), "accepted".into()))),
            (Ok(f), true) => {
                let s = f.to_swift_string(); let body = s.splitn(3, ':').nth(2).unwrap_or("");
                if body != content { return (true, Some(("mt-roundtrip".into(), format!("serialised as {body:?}")))); }
                match serde_json::to_value(&f).ok().and_then(|j| serde_json::from_value::<T>(j).ok()) {
                    Some(f2) if f2.to_swift_string() == s => (true, None),
                    _ => (true, Some(("json-roundtrip".into(), "JSON round trip changed the value".into()))),
                }
            }
        }
    }, else => (false, None))
}

struct Acc { col: Collector, evals: u64, accepted: u64 }

pub fn run(ctx: &Ctx) -> i32 {
    let mut ev = Evidence::new("C11", &ctx.tier, "exploration");
    let fields: Vec<(&str, &str, &str, &str, bool)> = DATE_FIELDS[..15].to_vec();
    let nf = fields.len();
    // ---- all 10^6 six-digit strings x 15 parsers
    let total = 1_000_000usize * nf;
    let accs = par::par_for(total, 20_000, || Acc { col: Collector::new(), evals: 0, accepted: 0 }, |i, a| {
        let (fi, n) = (i / 1_000_000, i % 1_000_000);
        let (_k, ty, pre, suf, short) = fields[fi];
        let digits = format!("{:06}", n);
        let content = format!("{pre}{digits}{suf}");
        let (acc, bad) = probe_date(ty, &content, &digits, short);
        a.evals += 1; if acc { a.accepted += 1; }
        if let Some((clause, detail)) = bad {
            a.col.add(format!("C11/{ty}/{clause}"), i as u64, || detail.clone(), || json!({"field": ty, "content": content}));
        }
    });
    let mut col = Collector::new(); let (mut evals, mut accepted) = (0u64, 0u64);
    for a in accs { col.merge(a.col); evals += a.evals; accepted += a.accepted; }
    // differential across parsers: identical accept set is implied by the oracle above (each is compared with the calendar)
    // ---- non-digit six-character menu
    let menu = ["+1+1+1", "-1-1-1", " 1 1 1", "24071A", "2407 9", "24.719", "+40719", "2407+1", "\u{0660}\u{0660}1231"];
    let mut order = total as u64;
    for (_k, ty, pre, suf, short) in &fields {
        for d in menu {
            if !d.is_ascii() { continue; }
            order += 1; evals += 1;
            let content = format!("{pre}{d}{suf}");
            let (acc, bad) = probe_date(ty, &content, d, *short);
            if acc { accepted += 1; }
            if let Some((clause, detail)) = bad { col.add(format!("C11/{ty}/{clause}"), order, || detail.clone(), || json!({"field": ty, "content": content})); }
        }
    }
    // ---- all HHMM through 13C / 13D, all signed offsets, all MMDD entry dates of 61
    let mut time_evals = 0u64;
    for n in 0..10_000u32 {
        let t = format!("{:04}", n);
        for (ty, content) in [("Field13C", format!("/SNDTIME/{t}+0100")), ("Field13D", format!("240719{t}+0100"))] {
            order += 1; time_evals += 1;
            let (_, bad) = probe_simple(ty, &content, m1::hhmm(&t), "invalid-accepted:time", "valid-rejected:time");
            if let Some((clause, detail)) = bad { col.add(format!("C11/{ty}/{clause}"), order, || detail.clone(), || json!({"field": ty, "content": content})); }
        }
        for sign in ["+", "-"] {
            for (ty, content) in [("Field13C", format!("/SNDTIME/1230{sign}{t}")), ("Field13D", format!("2407191230{sign}{t}"))] {
                order += 1; time_evals += 1;
                let (_, bad) = probe_simple(ty, &content, m1::offset_ok(&t), "invalid-accepted:offset", "valid-rejected:offset");
                if let Some((clause, detail)) = bad { col.add(format!("C11/{ty}/{clause}"), order, || detail.clone(), || json!({"field": ty, "content": content})); }
            }
        }
        // entry date MMDD of field 61 (a real month/day; 0229 exists in leap years)
        let mm: u32 = t[0..2].parse().unwrap(); let dd: u32 = t[2..4].parse().unwrap();
        let content = format!("231225{t}D1234,56NTRFREF123");
        order += 1; time_evals += 1;
        let (_, bad) = probe_simple("Field61", &content, m1::valid_ymd(2024, mm, dd), "invalid-accepted:entry-date", "valid-rejected:entry-date");
        if let Some((clause, detail)) = bad { col.add(format!("C11/Field61/{clause}"), order, || detail.clone(), || json!({"field": "Field61", "content": content})); }
    }
    evals += time_evals;
    ev.set("evaluations", json!(evals));
    ev.set("accepted_by_library", json!(accepted));
    ev.set("distinct_nontrivial", json!(accepted.min(365 * 100 * nf as u64 + 25 * nf as u64)));
    ev.set("rule", json!("all 1,000,000 six-digit strings embedded in an otherwise fixed valid content of each of 15 date-bearing field types (11, 11R, 11S, 13D, 30, 32A/C/D, 60F/M, 61, 62F/M, 64, 65) + a menu of signed/space/letter near-misses; all 10,000 HHMM in 13C/13D; all 20,000 signed offsets in 13C/13D; all 10,000 MMDD entry dates in 61. Oracle: Gregorian calendar + the documented 50-year pivot; accepted values are round-tripped through MT text and JSON. distinct_nontrivial = number of accepted (field, date) cases"));
    ev.set("exhaustive", json!(true));
    ev.set("samples", json!([{"field": "Field32A", "content": "240229USD1000,50"}, {"field": "Field13D", "content": "6501011230+0100"}, {"field": "Field61", "content": "2312250230D1234,56NTRFREF123"}]));
    ev.assume("century of a two-digit year = the pivot documented on swift_utils::parse_date_yymmdd (00-49 -> 20xx, 50-99 -> 19xx)");
    super::finish(ev, &col)
}

pub fn replay(v: &Value) -> i32 {
    let ty = v["case"]["field"].as_str().unwrap_or(""); let content = v["case"]["content"].as_str().unwrap_or("");
    let obs = |_: ()| with_field!(ty, T => format!("{:?}", guarded(|| <T as SwiftField>::parse(content).map(|f| (f.to_swift_string(), serde_json::to_value(&f).ok())).map_err(|e| e.to_string()))), else => "unknown".to_string());
    let (a, b) = (obs(()), obs(()));
    if a != b { eprintln!("MACHINERY: replay diverged"); return 2; }
    println!("{ty}::parse({content:?}) -> {a}\nrecorded: {}", v["what"]);
    0
}
