//! C01 — nothing in an accepted message is silently discarded.
//! (1) message level: every single structural mutation (E-mutate) of model-generated valid
//!     messages (E-layout) of all 30 types, judged against the M2 layout language;
//! (2) explicit-state exploration (stateright) of the real `MessageParser` against a strict
//!     sequential reference consumer  — see c01_sr.rs.
use crate::common::{ev::Evidence, findings::Collector, guard::{guarded, short_loc}, par, tok::{self, Tok}};
use crate::spec::{self, corpus::corpus, m1, m2::{self, Msg}, mutate::{self, MutKind, Mutant}};
use crate::{with_field, with_mt, Ctx};
use serde_json::{json, Value};
use swift_mt_message::{SwiftField, SwiftMessageBody, SwiftParser};

/// Does the kind's own (real) parser accept this content standalone?
pub fn field_parse_ok(kind: &str, content: &str) -> Option<bool> {
    let k = m1::kind(kind)?;
    let r = with_field!(k.ty, T => guarded(|| <T as SwiftField>::parse(content).is_ok()), else => return None);
    Some(r.unwrap_or(false))
}

/// kinds a tag may denote (tag 25 may carry 25- or 25P-shaped content)
fn kinds_of(tag: &str) -> Vec<&'static str> {
    match tag { "25" => vec!["25", "25P"], _ => m1::kind(tag).map(|k| vec![k.tag]).unwrap_or_default() }
}

/// contents equal up to the library's canonical formatting of numbers and line endings
pub fn content_equiv(tag: &str, a: &str, b: &str) -> bool {
    let (a, b) = (a.replace("\r\n", "\n"), b.replace("\r\n", "\n"));
    if a == b { return true; }
    for k in kinds_of(tag) {
        if let (Some(ca), Some(cb)) = (m1::components(k, &a), m1::components(k, &b)) { if ca == cb { return true; } }
    }
    false
}

pub fn in_language(mt: &str, toks: &[Tok]) -> bool {
    let tags: Vec<String> = toks.iter().map(|t| t.tag.clone()).collect();
    if !m2::accepts_tags(m2::layout(mt), &tags) { return false; }
    toks.iter().all(|t| kinds_of(&t.tag).iter().any(|k| field_parse_ok(k, &t.content) == Some(true)))
}

pub enum Obs { Rejected(String), Accepted { out: Vec<Tok>, absorbed: Option<String> }, Panic(String) }

/// A string leaf of the parsed message with a line that starts like a field (`:NN[A]:`): the tokeniser would
/// have made that line a field of its own, so a field has been absorbed into another field's content.
fn absorbed_marker(v: &Value) -> Option<String> {
    match v {
        Value::String(s) => s.split('\n').find_map(|l| tok::is_tag_start(l).map(|(t, _)| t.to_string())),
        Value::Array(a) => a.iter().find_map(absorbed_marker),
        Value::Object(o) => o.values().find_map(absorbed_marker),
        _ => None,
    }
}

pub fn observe(mt: &str, toks: &[Tok]) -> Obs {
    let full = spec::envelope(mt, &tok::render_lf(toks));
    with_mt!(mt, T => {
        match guarded(|| SwiftParser::parse::<T>(&full).map(|p| (p.fields.to_mt_string(), serde_json::to_value(&p.fields).ok().as_ref().and_then(absorbed_marker)))) {
            Err(loc) => Obs::Panic(loc),
            Ok(Err(e)) => Obs::Rejected(format!("{e}")),
            Ok(Ok((s, absorbed))) => Obs::Accepted { out: tok::tokenise(&s), absorbed },
        }
    }, else => Obs::Rejected("unknown type".into()))
}

/// Compare input and output token lists; None = everything represented.
/// Some((clause-suffix, locus)) names the first loss.
pub fn first_loss(input: &[Tok], out: &[Tok]) -> Option<(&'static str, String)> {
    let (mut i, mut o) = (0, 0);
    while i < input.len() {
        if o < out.len() && input[i].tag == out[o].tag {
            if !content_equiv(&input[i].tag, &input[i].content, &out[o].content) { return Some(("content-changed", input[i].tag.clone())); }
            i += 1; o += 1;
        } else {
            // is input[i] simply missing from the output?  (the rest of the output continues with input[i+1..])
            let prev = if i > 0 { input[i - 1].tag.as_str() } else { "^" };
            let same_number = o < out.len() && input[i].tag.len() >= 2 && out[o].tag.len() >= 2 && input[i].tag[..2] == out[o].tag[..2];
            if same_number && content_equiv(&out[o].tag, &input[i].content, &out[o].content) {
                return Some(("retagged", format!("{}->{}", input[i].tag, out[o].tag)));
            }
            return Some(("dropped", format!("{}~{}", input[i].tag, prev)));
        }
    }
    if o < out.len() { return Some(("invented", out[o].tag.clone())); }
    None
}

struct Acc { col: Collector, evals: u64, accepted: u64, rejected: u64, inlang: u64, buckets: std::collections::HashSet<String>, samples: Vec<Value> }

/// the set of object-key paths of the JSON of the parsed fields (array indices and null values ignored)
fn key_paths(v: &Value, path: &str, out: &mut std::collections::BTreeSet<String>) {
    match v {
        Value::Object(o) => for (k, x) in o { if x.is_null() { continue; } let p = format!("{path}/{k}"); out.insert(p.clone()); key_paths(x, &p, out); },
        Value::Array(a) => for x in a { key_paths(x, &format!("{path}[]"), out); },
        _ => {}
    }
}
fn parsed_keys(mt: &str, block4: &str) -> Option<std::collections::BTreeSet<String>> {
    let full = spec::envelope(mt, block4);
    with_mt!(mt, T => {
        match guarded(|| SwiftParser::parse::<T>(&full).ok().and_then(|p| serde_json::to_value(&p.fields).ok())) {
            Ok(Some(j)) => { let mut s = std::collections::BTreeSet::new(); key_paths(&j, "", &mut s); Some(s) }
            _ => None,
        }
    }, else => None)
}

pub fn judge(mt: &str, m: &Mutant, order: u64, a: &mut Collector, base_text: &str) -> (&'static str, bool) {
    if m.kind == MutKind::BlankLine {
        // the text has the same fields as the base; if it is accepted, the parsed message must expose the same
        // fields (a field absorbed into the content of its predecessor reproduces the same text, so the
        // output comparison below cannot see it)
        let text = tok::render_lf(&m.toks);
        return match (parsed_keys(mt, &text), parsed_keys(mt, base_text)) {
            (Some(got), Some(want)) => {
                if let Some(lost) = want.iter().find(|k| !got.contains(*k)) {
                    let prev = m.at.and_then(|p| m.toks.get(p.wrapping_sub(1))).map(|t| t.tag.clone()).unwrap_or_default();
                    let lost_tag = lost.rsplit('/').next().unwrap_or("").to_string();
                    a.add(format!("C01/MT{mt}/absorbed-after-blank-line/{}~{}", lost_tag.chars().take_while(|c| c.is_ascii_alphanumeric()).collect::<String>(), prev), order,
                        || format!("accepted; the parsed message no longer has {lost} (present without the blank line)"), || json!({"mt": mt, "mutation": m.desc, "block4": text}));
                    ("accepted-lossy", false)
                } else { ("accepted-preserved", false) }
            }
            (None, _) => ("rejected", false),
            (Some(_), None) => ("accepted-preserved", false),
        };
    }
    if m.kind == MutKind::TextAfterDash {
        // whatever the library makes of the hyphen line, the text after it must not vanish from an accepted message
        return match observe(mt, &m.toks) {
            Obs::Accepted { out, .. } => {
                if out.iter().any(|t| t.content.contains("TRAILING TEXT 4711")) { ("accepted-preserved", false) } else {
                    a.add(format!("C01/MT{mt}/dropped-text-after-dash-line/{}", m.tag), order, || format!("accepted, but output is {:?}", tok::render_lf(&out)), || json!({"mt": mt, "mutation": m.desc, "block4": tok::render_lf(&m.toks)}));
                    ("accepted-lossy", false)
                }
            }
            Obs::Rejected(_) => ("rejected", false),
            Obs::Panic(_) => ("panic", false),
        };
    }
    let inl = in_language(mt, &m.toks);
    match observe(mt, &m.toks) {
        // panics belong to C07 (totality); a rejected in-language mutant belongs to C03 (acceptance)
        Obs::Panic(_loc) => ("panic", inl),
        Obs::Rejected(_e) => ("rejected", inl),
        Obs::Accepted { out, absorbed } => {
            if let Some(t) = absorbed {
                a.add(format!("C01/MT{mt}/absorbed/{t}:{}", m.kind.clause()), order, || format!("accepted; a content string of the parsed message holds a line that starts with the field marker of {t}"), || json!({"mt": mt, "mutation": m.desc, "block4": tok::render_lf(&m.toks)}));
                return ("accepted-lossy", inl);
            }
            match first_loss(&m.toks, &out) {
                None => {
                    // a text the layout does not allow but that is accepted *and fully reproduced* loses
                    // nothing; only an unknown tag can never be represented
                    if !inl && matches!(m.kind, MutKind::InsertUnknown | MutKind::AppendUnknown) {
                        a.add(format!("C01/MT{mt}/accepted-not-in-language/{}:{}", m.tag, m.kind.clause()), order, || "accepted and reproduced although the layout does not allow it".into(), || json!({"mt": mt, "mutation": m.desc, "block4": tok::render_lf(&m.toks)}));
                    }
                    ("accepted-preserved", inl)
                }
                Some((what, locus)) => {
                    // name the clause after what the mutation did when the lost field is the mutated one
                    let clause = if what == "dropped" && locus.starts_with(&format!("{}~", m.tag)) { m.kind.clause() } else if what == "dropped" { "dropped-other" } else { what };
                    a.add(format!("C01/MT{mt}/{clause}/{locus}"), order,
                        || format!("accepted, but output is {:?}", tok::render_lf(&out)),
                        || json!({"mt": mt, "mutation": m.desc, "block4": tok::render_lf(&m.toks)}));
                    ("accepted-lossy", inl)
                }
            }
        }
    }
}

pub fn run(ctx: &Ctx) -> i32 {
    let mut ev = Evidence::new("C01", &ctx.tier, "model_checking");
    // ---- part 2 first (small): stateright exploration of the real MessageParser
    let sr = super::c01_sr::explore(ctx);
    let mut col = sr.col;
    // ---- part 1: message-level mutants
    let (d, cap, per_type) = if ctx.thorough { (2u32, 20_000u64, 1500usize) } else { (1u32, 2_000u64, 60usize) };
    let alphabet = mutate::alphabet();
    let mut jobs: Vec<(Msg, bool)> = vec![]; // (base, with inserts at every position)
    let (mut states, mut transitions) = (sr.states, sr.transitions);
    let mut bases_per_type = vec![];
    for mt in crate::common::reg::MT_CODES {
        let (msgs, st) = corpus(mt, d, cap);
        states += st.states; transitions += st.transitions;
        // keep the bases the implementation accepts and reproduces (C03's job to report the others)
        let ok: Vec<Msg> = msgs.into_iter().filter(|m| matches!(super::c03::eval(m), super::c03::Outcome::Ok)).collect();
        // inserts at every position only for the first `per_type` bases (fewest deviations first); others get the cheap mutations
        bases_per_type.push(json!({"mt": mt, "bases": ok.len(), "with_full_insert_alphabet": ok.len().min(per_type)}));
        for (i, m) in ok.into_iter().enumerate() { jobs.push((m, i < per_type)); }
    }
    let n = jobs.len();
    let accs = par::par_for(n, 4, || Acc { col: Collector::new(), evals: 0, accepted: 0, rejected: 0, inlang: 0, buckets: Default::default(), samples: vec![] }, |i, a| {
        let (base, full) = &jobs[i];
        let toks = base.toks();
        let base_text = base.text_lf();
        let mut muts = mutate::single_mutations(&toks, &alphabet, *full);
        if let Some(m) = mutate::over_repeat(base) { muts.push(m); }
        for (j, m) in muts.iter().enumerate() {
            if m.kind == MutKind::Delete { continue; }
            if m.kind == MutKind::Corrupt {
                // only contents the field's own parser rejects standalone
                let t = &m.toks[m.at.unwrap()];
                if kinds_of(&t.tag).iter().any(|k| field_parse_ok(k, &t.content) != Some(false)) { continue; }
            }
            let order = (i as u64) * 100_000 + j as u64;
            let (o, inl) = judge(base.mt, m, order, &mut a.col, &base_text);
            a.evals += 1;
            if inl { a.inlang += 1; }
            match o { "rejected" => a.rejected += 1, _ => a.accepted += 1 }
            a.buckets.insert(format!("{}:{}:{}:{}", base.mt, m.kind.clause(), m.tag, o));
            if a.samples.len() < 1 && j == 7 && i % 211 == 0 { a.samples.push(json!({"mt": base.mt, "mutation": m.desc, "block4": tok::render_lf(&m.toks), "observed": o})); }
        }
    });
    let (mut evals, mut accepted, mut rejected, mut inlang) = (0, 0, 0, 0);
    let mut buckets = std::collections::HashSet::new(); let mut samples = sr.samples;
    for a in accs { col.merge(a.col); evals += a.evals; accepted += a.accepted; rejected += a.rejected; inlang += a.inlang; buckets.extend(a.buckets); samples.extend(a.samples); }
    samples.truncate(8);
    ev.set("states", json!(states)); ev.set("transitions", json!(transitions));
    ev.set("traces_validated_against_impl", json!(evals + sr.traces));
    ev.set("evaluations", json!(evals + sr.transitions));
    ev.set("message_mutants", json!({"evaluated": evals, "accepted_by_library": accepted, "rejected_by_library": rejected, "in_layout_language": inlang, "bases": n, "per_type": bases_per_type}));
    ev.set("parser_state_machine", sr.summary);
    ev.set("distinct_nontrivial", json!(buckets.len() as u64 + sr.distinct));
    ev.set("rule", json!("part 1: all single mutations (insert any known/unknown field at any position, duplicate, swap neighbours, corrupt with contents the field's own parser rejects, append, over-repeat) of every accepted model-generated base message; distinct = (type, mutation clause, tag, outcome). part 2: stateright DFS over (text, real MessageParser state, reference state) with every public operation as transition"));
    ev.set("samples", json!(samples));
    ev.set("exhaustive", json!(false));
    ev.assume("layout membership (M2) decides whether a mutated tag sequence is allowed; field contents are judged by the field's own parser (C05 judges those)");
    super::finish(ev, &col)
}

pub fn replay(v: &Value) -> i32 {
    let case = &v["case"];
    if case.get("ops").is_some() { return super::c01_sr::replay(v); }
    let mt = case["mt"].as_str().unwrap_or("");
    let toks = tok::tokenise(case["block4"].as_str().unwrap_or(""));
    let mut obs = vec![];
    for _ in 0..2 {
        obs.push(match observe(mt, &toks) { Obs::Panic(l) => format!("panic@{l}"), Obs::Rejected(e) => format!("Err: {e}"), Obs::Accepted { out, .. } => format!("Ok -> {:?}", tok::render_lf(&out)) });
    }
    if obs[0] != obs[1] { eprintln!("MACHINERY: replay diverged"); return 2; }
    println!("input:\n{}\nobserved: {}\nin layout language: {}", tok::render_lf(&toks), obs[0], in_language(mt, &toks));
    0
}
