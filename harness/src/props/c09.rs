//! C09 — mandatory structure is enforced and the error names the culprit.
use crate::common::{ev::Evidence, findings::Collector, guard::guarded, par, tok::{self, Tok}};
use crate::spec::{self, corpus::corpus, m2::{self, Cont, Msg}, mutate};
use crate::{with_mt, Ctx};
use serde_json::{json, Value};
use swift_mt_message::{ParseError, SwiftParser};

fn parse_err(mt: &str, toks: &[Tok]) -> Result<Option<ParseError>, String> {
    let full = spec::envelope(mt, &tok::render_lf(toks));
    with_mt!(mt, T => match guarded(|| SwiftParser::parse::<T>(&full)) { Ok(Ok(_)) => Ok(None), Ok(Err(e)) => Ok(Some(e)), Err(l) => Err(l) }, else => Err("type".into()))
}

fn base_tag(t: &str) -> &str { if t.len() == 3 { &t[..2] } else { t } }

fn names_missing(e: &ParseError, tag: &str, mt: &str) -> bool {
    let text = format!("{e}");
    let tag_ok = match e { ParseError::MissingRequiredField { field_tag, .. } => field_tag == tag || field_tag == base_tag(tag), _ => false }
        || text.contains(&format!(" {tag} ")) || text.contains(&format!("({tag})")) || text.contains(&format!("field {tag}")) || text.contains(&format!("Field {tag}")) || text.contains(&format!(" {} ", base_tag(tag))) || text.contains(&format!("field {}", base_tag(tag))) || text.contains(&format!("Field {}", base_tag(tag)));
    let mt_ok = match e { ParseError::MissingRequiredField { message_type, .. } => message_type == mt || message_type == &format!("MT{mt}"), _ => false } || text.contains(mt);
    tag_ok && mt_ok
}

fn where_(o: &m2::Occ) -> String { match &o.cont { Cont::Root => o.tag.clone(), Cont::SeqItem(_) => format!("{}@seq", o.tag), Cont::SeqObj => format!("{}@B", o.tag) } }

struct Acc { col: Collector, deletions: u64, replacements: u64, buckets: std::collections::HashSet<String> }

pub fn run(ctx: &Ctx) -> i32 {
    let mut ev = Evidence::new("C09", &ctx.tier, "exploration");
    let (d, cap) = if ctx.thorough { (2u32, 20_000u64) } else { (1u32, 2_000u64) };
    let mut bases: Vec<Msg> = vec![];
    for mt in crate::common::reg::MT_CODES {
        let (msgs, _) = corpus(mt, d, cap);
        bases.extend(msgs.into_iter().filter(|m| matches!(super::c03::eval(m), super::c03::Outcome::Ok)));
    }
    let n = bases.len();
    let accs = par::par_for(n, 8, || Acc { col: Collector::new(), deletions: 0, replacements: 0, buckets: Default::default() }, |i, a| {
        let m = &bases[i]; let toks = m.toks(); let l = m2::layout(m.mt);
        for (p, o) in m.occs.iter().enumerate() {
            let order = (i as u64) * 10_000 + p as u64 * 10;
            // ---- deletion of a mandatory occurrence
            if o.doc_mand {
                let mut t = toks.clone(); t.remove(p);
                let tags: Vec<String> = t.iter().map(|x| x.tag.clone()).collect();
                // an empty repeating sequence is reported by network rule T10 (C04) for MT110/204/210, not by the parser
                let empties_seq = o.cont != Cont::Root && m.occs.iter().filter(|x| x.cont == o.cont).count() == 1 && m.seq_count == Some(1) && ["110", "204", "210"].contains(&m.mt);
                if !m2::accepts_tags(l, &tags) && !empties_seq {
                    a.deletions += 1;
                    let first_of_seq = o.cont != Cont::Root && (p == 0 || m.occs[p - 1].cont != o.cont);
                    match parse_err(m.mt, &t) {
                        Err(_) => {}
                        Ok(None) => { a.col.add(format!("C09/MT{}/missing-accepted/{}", m.mt, where_(o)), order, || "accepted although a mandatory field is missing".into(), || json!({"mt": m.mt, "deleted": o.tag, "block4": tok::render_lf(&t)})); }
                        Ok(Some(e)) => {
                            a.buckets.insert(format!("{}:del:{}", m.mt, where_(o)));
                            if !first_of_seq && !names_missing(&e, &o.tag, m.mt) {
                                a.col.add(format!("C09/MT{}/missing-wrong-culprit/{}", m.mt, where_(o)), order, || format!("{e}"), || json!({"mt": m.mt, "deleted": o.tag, "block4": tok::render_lf(&t)}));
                            }
                        }
                    }
                }
            }
            // ---- replacement by invalid content
            for (ci, (name, bad)) in mutate::corrupt_candidates(&o.content).into_iter().enumerate() {
                if !bad.is_ascii() { continue; } // non-ASCII contents: totality is C07's property
                // invalid by the independent field grammar (M1), not by the library's own field parser -- otherwise a
                // parser that starts to accept the content makes the case disappear instead of fail
                let m1_rejects = crate::spec::m1::kind(&o.kind).map(|k| matches!((k.rec)(&bad), crate::spec::m1::V::Reject(_))).unwrap_or(false);
                if !m1_rejects { continue; }
                let mut t = toks.clone(); t[p].content = bad.clone();
                a.replacements += 1;
                match parse_err(m.mt, &t) {
                    Err(_) => {}
                    Ok(None) => { a.col.add(format!("C09/MT{}/invalid-accepted/{}:{}", m.mt, where_(o), name), order + ci as u64, || "accepted".into(), || json!({"mt": m.mt, "field": o.tag, "content": bad, "block4": tok::render_lf(&t)})); }
                    Ok(Some(e)) => {
                        a.buckets.insert(format!("{}:bad:{}:{}", m.mt, where_(o), name));
                        let ok = match &e { ParseError::InvalidFieldFormat(b) => (b.field_tag == o.tag || b.field_tag == base_tag(&o.tag)) && b.value.replace("\r\n", "\n") == bad, _ => false };
                        if !ok {
                            let got = match &e { ParseError::InvalidFieldFormat(b) => format!("InvalidFieldFormat{{field_tag:{:?}, value:{:?}}}", b.field_tag, b.value), other => format!("{other}") };
                            a.col.add(format!("C09/MT{}/invalid-wrong-culprit/{}:{}", m.mt, where_(o), name), order + ci as u64, || got, || json!({"mt": m.mt, "field": o.tag, "content": bad, "block4": tok::render_lf(&t)}));
                        }
                    }
                }
            }
        }
    });
    let mut col = Collector::new(); let (mut dels, mut reps) = (0, 0); let mut buckets = std::collections::HashSet::new();
    for a in accs { col.merge(a.col); dels += a.deletions; reps += a.replacements; buckets.extend(a.buckets); }
    // ---- deletion of every occurrence of a mandatory repeating sequence (the message keeps all its other fields)
    let mut seq_dels = 0u64;
    for (i, m) in bases.iter().enumerate() {
        if m.seq_count.is_none() || !m.seq_array { continue; }
        let l = m2::layout(m.mt);
        let lo = l.nodes.iter().find_map(|n| if let m2::Node::S(s) = n { if s.array { Some(s.lo) } else { None } } else { None }).unwrap_or(0);
        if lo == 0 { continue; }
        let toks = m.toks();
        let t: Vec<Tok> = toks.iter().zip(m.occs.iter()).filter(|(_, o)| !matches!(o.cont, Cont::SeqItem(_))).map(|(t, _)| t.clone()).collect();
        if t.len() == toks.len() { continue; }
        let tags: Vec<String> = t.iter().map(|x| x.tag.clone()).collect();
        if m2::accepts_tags(l, &tags) { continue; }
        seq_dels += 1;
        let first = m.occs.iter().find(|o| matches!(o.cont, Cont::SeqItem(_))).map(|o| o.tag.clone()).unwrap_or_default();
        match parse_err(m.mt, &t) {
            Err(_) => {}
            // MT110/204/210 report an empty sequence by network rule T10; the parser may accept it
            Ok(None) => { if !["110", "204", "210"].contains(&m.mt) { col.add(format!("C09/MT{}/missing-accepted/sequence:{first}", m.mt), (i as u64) * 10_000 + 9_999, || "accepted although the mandatory repeating sequence is missing altogether".into(), || json!({"mt": m.mt, "deleted": format!("every occurrence of the sequence starting with {first}"), "block4": tok::render_lf(&t)})); } }
            Ok(Some(e)) => { buckets.insert(format!("{}:del-seq", m.mt)); let txt = format!("{e}").to_lowercase(); let names_sequence = (txt.contains("sequence") || txt.contains("at least one")) && txt.contains(&m.mt.to_lowercase()); if !names_missing(&e, &first, m.mt) && !names_sequence { col.add(format!("C09/MT{}/missing-wrong-culprit/sequence:{first}", m.mt), (i as u64) * 10_000 + 9_999, || format!("{e}"), || json!({"mt": m.mt, "block4": tok::render_lf(&t)})); } }
        }
    }
    ev.set("whole_sequence_deletions", json!(seq_dels));
    ev.set("evaluations", json!(dels + reps)); ev.set("deletions", json!(dels)); ev.set("replacements", json!(reps)); ev.set("bases", json!(n));
    ev.set("distinct_nontrivial", json!(buckets.len()));
    ev.set("rule", json!("for every accepted model-generated message (all 30 types, within d deviations of the minimal and maximal message): every mandatory occurrence deleted (judged when the remaining tag sequence is outside the layout language), every occurrence's content replaced by each ASCII candidate content its own parser rejects (empty, over-long, bad leading character); distinct = (type, element, kind of damage)"));
    ev.set("samples", json!([{"mt": "103", "deleted": "32A"}, {"mt": "202", "field": "58A", "content": ""}]));
    ev.set("exhaustive", json!(false));
    ev.assume("the culprit of a deleted sequence-marker field (first field of a repeating sequence) is not judged: the remaining text is structurally ambiguous; only rejection is required there");
    super::finish(ev, &col)
}

pub fn replay(v: &Value) -> i32 {
    let mt = v["case"]["mt"].as_str().unwrap_or(""); let toks = tok::tokenise(v["case"]["block4"].as_str().unwrap_or(""));
    let a = format!("{:?}", parse_err(mt, &toks).map(|e| e.map(|e| format!("{e}")))); let b = format!("{:?}", parse_err(mt, &toks).map(|e| e.map(|e| format!("{e}"))));
    if a != b { eprintln!("MACHINERY: replay diverged"); return 2; }
    println!("{}\nobserved: {a}\nrecorded: {}", tok::render_lf(&toks), v["what"]);
    0
}
