use crate::Ctx;
pub mod c01;
pub mod c01_sr;
pub mod c02;
pub mod rt;
pub mod c03;
pub mod c04;
pub mod c05;
pub mod c06;
pub mod c07;
pub mod c08;
pub mod c09;
pub mod c10;
pub mod c11;
pub mod c12;
pub mod c13;
pub mod c14;
pub mod c15;
pub mod c16;
pub mod c17;

pub fn run(id: &str, ctx: &Ctx) -> i32 {
    // model self-consistency before any verdict (failure = machinery error, exit 2)
    match crate::spec::m1::self_check() { Ok(_) => {}, Err(e) => { eprintln!("MACHINERY: {e}"); return 2; } }
    match crate::spec::m2::self_check() { Ok(_) => {}, Err(e) => { eprintln!("MACHINERY: {e}"); return 2; } }
    match id {
        "C01" => c01::run(ctx),
        "C02" => c02::run(ctx),
        "C03" => c03::run(ctx),
        "C04" => c04::run(ctx),
        "C05" => c05::run(ctx),
        "C06" => c06::run(ctx),
        "C07" => c07::run(ctx),
        "C08" => c08::run(ctx),
        "C09" => c09::run(ctx),
        "C10" => c10::run(ctx),
        "C11" => c11::run(ctx),
        "C12" => c12::run(ctx),
        "C13" => c13::run(ctx),
        "C14" => c14::run(ctx),
        "C15" => c15::run(ctx),
        "C16" => c16::run(ctx),
        "C17" => c17::run(ctx),
        _ => { eprintln!("unknown property {id}"); 2 }
    }
}

pub fn replay(id: &str, path: &str) -> i32 {
    let Ok(s) = std::fs::read_to_string(path) else { eprintln!("cannot read {path}"); return 2; };
    let Ok(v) = serde_json::from_str::<serde_json::Value>(&s) else { eprintln!("bad replay json"); return 2; };
    match id {
        "C01" => c01::replay(&v),
        "C02" => c02::replay(&v),
        "C03" => c03::replay(&v),
        "C04" => c04::replay(&v),
        "C05" => c05::replay(&v),
        "C06" => c06::replay(&v),
        "C07" => c07::replay(&v),
        "C08" => c08::replay(&v),
        "C09" => c09::replay(&v),
        "C10" => c10::replay(&v),
        "C11" => c11::replay(&v),
        "C12" => c12::replay(&v),
        "C13" => c13::replay(&v),
        "C14" => c14::replay(&v),
        "C15" => c15::replay(&v),
        "C16" => c16::replay(&v),
        "C17" => c17::replay(&v),
        _ => { eprintln!("unknown property {id}"); 2 }
    }
}

/// Standard conclusion: print findings, write evidence, compute exit code.
pub fn finish(mut ev: crate::common::ev::Evidence, col: &crate::common::findings::Collector) -> i32 {
    let (unlisted, known) = crate::common::findings::conclude(&ev.property_id.clone(), col);
    ev.violations = unlisted as i64;
    ev.set("known_findings_reproduced", serde_json::json!(known));
    ev.set("finding_keys_seen", serde_json::json!(col.len()));
    ev.write();
    println!("{}: tier={} violations(unlisted)={} known-findings={} wall={:.1}s", ev.property_id, ev.tier, unlisted, known, ev.start.elapsed().as_secs_f64());
    if unlisted > 0 { 1 } else { 0 }
}
