//! C17 — reject / return / cover classification follows the codes present, consistently.
//! Exhaustive over the stated menu: every subset of 8 code words / look-alikes x 3 placements in
//! field 72 x block-3 tag 108 variants x tag 119 variants x all 30 types.
use crate::common::{ev::Evidence, findings::Collector, guard::guarded, par, plugins, reg::MT_CODES, tok::{self, Tok}};
use crate::spec::{corpus::corpus, m2::{self, Msg}};
use crate::{with_mt, Ctx};
use serde_json::{json, Value};
use std::collections::{BTreeMap, BTreeSet};
use swift_mt_message::SwiftParser;

const WORDS: [&str; 8] = ["/REJT/", "/RETN/", "/RJT/", "/RET/", "/COV/", "REJT", "/REJTX/", "/rejt/"];
const MURS: [(&str, Option<&str>); 5] = [("none", None), ("plain", Some("MUR123")), ("rejt", Some("XREJTX1")), ("retn", Some("ARETN01")), ("lower", Some("xrejtx")) ];
const FLAGS: [(&str, Option<&str>); 5] = [("none", None), ("STP", Some("STP")), ("COV", Some("COV")), ("REJT", Some("REJT")), ("RETN", Some("RETN"))];

fn base_of(mt: &str) -> Option<Msg> {
    let (msgs, _) = corpus(mt, 1, 3000);
    msgs.into_iter().filter(|m| m.base == "min" && m.deviations == 0).find(|m| matches!(super::c03::eval(m), super::c03::Outcome::Ok))
}

/// position at which a root-level field 72 may be inserted (None if the type has no such field)
fn slot_72(mt: &str, base: &Msg) -> Option<usize> {
    let l = m2::layout(mt);
    let toks = base.toks();
    for p in (0..=toks.len()).rev() {
        let mut t = toks.clone(); t.insert(p, Tok { tag: "72".into(), content: "X".into() });
        let tags: Vec<String> = t.iter().map(|x| x.tag.clone()).collect();
        if m2::accepts_tags(l, &tags) {
            // must be the root-level 72 (not inside a sequence): accept only if after insertion the library exposes fields."72"
            return Some(p);
        }
    }
    None
}

fn lines_for(mask: u32, placement: usize) -> Option<Vec<String>> {
    let ws: Vec<&str> = (0..8).filter(|i| mask & (1 << i) != 0).map(|i| WORDS[i]).collect();
    if ws.is_empty() { return if placement == 0 { Some(vec!["PLAIN INFORMATION".into()]) } else { None }; }
    match placement {
        0 => { if ws.len() > 6 { return None; } Some(ws.iter().map(|w| format!("{w}INFO")).collect()) } // one word per line, at line start
        1 => { // all from line 2 on, first line neutral, greedy packing
            let mut lines = vec!["/INS/BANKDEFF".to_string()]; let mut cur = String::new();
            for w in ws { if cur.len() + w.len() + 1 > 35 { lines.push(cur.clone()); cur.clear(); } if !cur.is_empty() { cur.push(' '); } cur.push_str(w); }
            if !cur.is_empty() { lines.push(cur); }
            if lines.len() > 6 { None } else { Some(lines) }
        }
        _ => { if ws.len() > 6 { return None; } Some(ws.iter().map(|w| format!("SEE {w} HERE")).collect()) } // mid-line
    }
}

#[derive(Clone, Debug, PartialEq)]
struct Obs { rej: bool, ret: bool, cov: bool, stp: bool, method: String }

fn observe(mt: &str, text: &str) -> Result<Obs, String> {
    let preds = with_mt!(mt, T => match guarded(|| SwiftParser::parse::<T>(text)) {
        Ok(Ok(p)) => (p.has_reject_codes(), p.has_return_codes(), p.is_cover_message(), p.is_stp_message()),
        Ok(Err(e)) => return Err(format!("parse: {e}")), Err(l) => return Err(format!("panic@{l}")),
    }, else => return Err("type".into()));
    let method = match guarded(|| plugins::parse_mt(text)) { Ok(Ok((_, md))) => md.get("method").and_then(|x| x.as_str()).unwrap_or("?").to_string(), Ok(Err(e)) => return Err(format!("plugin: {e}")), Err(l) => return Err(format!("panic@{l}")) };
    Ok(Obs { rej: preds.0, ret: preds.1, cov: preds.2, stp: preds.3, method })
}

fn implied(o: &Obs, flag: Option<&str>) -> &'static str {
    if o.rej || flag == Some("REJT") { "reject" } else if o.ret || flag == Some("RETN") { "return" } else if o.cov || flag == Some("COV") { "cover" } else if o.stp { "stp" } else { "normal" }
}

type Fail = (String /*mt*/, String /*clause*/, BTreeSet<String> /*features*/, String /*what*/, Value, u64);

pub fn run(ctx: &Ctx) -> i32 {
    let mut ev = Evidence::new("C17", &ctx.tier, "exploration");
    // cases
    struct Case { mt: &'static str, mask: u32, placement: usize, mur: usize, flag: usize, text: String, has72: bool }
    let mut cases: Vec<Case> = vec![];
    let mut types_with_72 = vec![];
    for mt in MT_CODES {
        let Some(base) = base_of(mt) else { continue; };
        let slot = slot_72(mt, &base);
        if slot.is_some() { types_with_72.push(mt); }
        let masks: Vec<(u32, usize)> = if let Some(_) = slot { (0..256u32).flat_map(|m| (0..3).map(move |p| (m, p))).collect() } else { vec![(0, 0)] };
        for (mask, placement) in masks {
            let toks = if let Some(p) = slot {
                let Some(lines) = lines_for(mask, placement) else { continue; };
                let mut t = base.toks(); t.insert(p, Tok { tag: "72".into(), content: lines.join("\n") }); t
            } else { base.toks() };
            let b4 = tok::render_lf(&toks);
            for (mi, (_, mur)) in MURS.iter().enumerate() { for (fi, (_, flag)) in FLAGS.iter().enumerate() {
                let mut b3 = String::new();
                if let Some(m) = mur { b3.push_str(&format!("{{108:{m}}}")); }
                if let Some(f) = flag { b3.push_str(&format!("{{119:{f}}}")); }
                let b3 = if b3.is_empty() { String::new() } else { format!("{{3:{b3}}}") };
                let text = format!("{{1:F01BANKBEBBAXXX0000000000}}{{2:I{mt}BANKDEFFXXXXN}}{b3}{{4:\n{b4}-}}");
                cases.push(Case { mt, mask, placement, mur: mi, flag: fi, text, has72: slot.is_some() });
            } }
        }
    }
    let n = cases.len();
    let obs: Vec<Vec<(usize, Result<Obs, String>)>> = par::par_for(n, 256, Vec::new, |i, a: &mut Vec<(usize, Result<Obs, String>)>| { a.push((i, observe(cases[i].mt, &cases[i].text))); });
    let mut results: Vec<Option<Result<Obs, String>>> = vec![None; n];
    for v in obs { for (i, r) in v { results[i] = Some(r); } }
    let mut fails: Vec<Fail> = vec![];
    let mut outcomes = BTreeSet::new();
    let feat = |c: &Case| -> BTreeSet<String> {
        let mut f = BTreeSet::new();
        for i in 0..8 { if c.mask & (1 << i) != 0 { f.insert(format!("72:{}", WORDS[i])); } }
        if c.placement != 0 { f.insert(format!("placement:{}", if c.placement == 1 { "line2+" } else { "mid-line" })); }
        if c.mur != 0 { f.insert(format!("108:{}", MURS[c.mur].0)); }
        if c.flag != 0 { f.insert(format!("119:{}", FLAGS[c.flag].0)); }
        f
    };
    let classifying = ["103", "202", "205"];
    let mut diff_index: BTreeMap<(u32, usize, usize, usize), Vec<(&str, Obs)>> = BTreeMap::new();
    for (i, c) in cases.iter().enumerate() {
        let case = json!({"mt": c.mt, "message": c.text});
        let o = match results[i].as_ref().unwrap() { Ok(o) => o.clone(), Err(e) => { if !e.starts_with("panic") { fails.push((c.mt.into(), "not-parsed".into(), feat(c), e.clone(), case, i as u64)); } continue; } };
        outcomes.insert(format!("{}:{}:{}:{}", c.rej_key(&o), o.ret, o.cov, o.method));
        let has = |w: usize| c.mask & (1 << w) != 0;
        let (mur, flag) = (MURS[c.mur].0, FLAGS[c.flag].1);
        let is_cls = classifying.contains(&c.mt);
        // expected reject / return (Some = specified)
        let rej_exp: Option<bool> = if mur == "rejt" || (is_cls && has(0)) { Some(true) } else if mur == "lower" { None } else if is_cls && (has(2) || has(5) || has(6) || has(7)) { None } else if !is_cls && c.has72 && (has(0) || has(2) || has(5) || has(6) || has(7)) { None } else { Some(false) };
        let ret_exp: Option<bool> = if mur == "retn" || (is_cls && has(1)) { Some(true) } else if is_cls && has(3) { None } else if !is_cls && c.has72 && (has(1) || has(3)) { None } else { Some(false) };
        if let Some(e) = rej_exp { if o.rej != e { fails.push((c.mt.into(), format!("predicate:reject={}", o.rej), feat(c), format!("has_reject_codes() = {}, expected {}", o.rej, e), case.clone(), i as u64)); } }
        if let Some(e) = ret_exp { if o.ret != e { fails.push((c.mt.into(), format!("predicate:return={}", o.ret), feat(c), format!("has_return_codes() = {}, expected {}", o.ret, e), case.clone(), i as u64)); } }
        // the 119 validation flag takes part in the method where the plugin documents it (MT202/205);
        // types that do not support the classification always report "normal" (not judged)
        let imp = implied(&o, if c.mt == "202" || c.mt == "205" { flag } else { None });
        if is_cls && o.method != imp { fails.push((c.mt.into(), format!("method:{}-not-{}", o.method, imp), feat(c), format!("plugin method {:?}, predicates/flag imply {:?} ({:?})", o.method, imp, o), case.clone(), i as u64)); }
        if is_cls { diff_index.entry((c.mask, c.placement, c.mur, c.flag)).or_default().push((c.mt, o)); }
    }
    // differential across 103 / 202 / 205
    for ((mask, placement, mur, flag), v) in &diff_index {
        if v.len() < 2 { continue; }
        for (name, get) in [("reject", (|o: &Obs| o.rej) as fn(&Obs) -> bool), ("return", |o: &Obs| o.ret)] {
            let vals: Vec<bool> = v.iter().map(|(_, o)| get(o)).collect();
            if vals.iter().any(|x| *x != vals[0]) {
                let trues = vals.iter().filter(|x| **x).count();
                let odd: Vec<&str> = v.iter().filter(|(_, o)| get(o) != (trues * 2 > vals.len())).map(|(m, _)| *m).collect();
                let c = cases.iter().find(|c| c.mask == *mask && c.placement == *placement && c.mur == *mur && c.flag == *flag && c.mt == odd[0]).unwrap();
                fails.push((odd.join("+"), format!("differential:{name}"), feat(c), format!("{name} predicate differs between types: {:?}", v.iter().map(|(m, o)| (m, get(o))).collect::<Vec<_>>()), json!({"mt": c.mt, "message": c.text}), (*mask as u64) << 8));
            }
        }
    }
    // keep only minimal explanations per (type, clause)
    let mut col = Collector::new();
    let mut groups: BTreeMap<(String, String), Vec<usize>> = BTreeMap::new();
    for (i, f) in fails.iter().enumerate() { groups.entry((f.0.clone(), f.1.clone())).or_default().push(i); }
    for ((mt, clause), idxs) in groups {
        for &i in &idxs {
            let fi = &fails[i].2;
            let minimal = !idxs.iter().any(|&j| j != i && fails[j].2.len() < fi.len() && fails[j].2.is_subset(fi));
            if minimal {
                let key = format!("C17/MT{mt}/{clause}/{}", if fi.is_empty() { "plain".to_string() } else { fi.iter().cloned().collect::<Vec<_>>().join("+") });
                let (w, c, o) = (fails[i].3.clone(), fails[i].4.clone(), fails[i].5);
                col.add(key, o, || w, || c);
            }
        }
    }
    ev.set("evaluations", json!(n)); ev.set("distinct_nontrivial", json!(outcomes.len()));
    ev.set("failing_cases_before_minimisation", json!(fails.len()));
    ev.set("types_with_field_72", json!(types_with_72));
    ev.set("rule", json!("for each of the 30 types: (types with a message-level field 72) every subset of the 8 words {/REJT/ /RETN/ /RJT/ /RET/ /COV/ REJT /REJTX/ /rejt/} in 3 placements (own line at line start / from line 2 / mid-line) x 5 variants of block-3 tag 108 x 5 variants of tag 119; observed: has_reject_codes, has_return_codes, is_cover_message, is_stp_message and the parse_mt plugin's method. Oracle: M5 table (look-alikes Unspecified), differential across MT103/202/205, method = precedence(reject > return > cover > stp > normal) of the predicates and the 119 flag. Findings are reduced to minimal feature sets. distinct = distinct (predicates, method) outcomes"));
    ev.set("exhaustive", json!(true));
    ev.set("samples", json!(cases.iter().filter(|c| c.mask == 3 && c.mur == 0 && c.flag == 0 && c.placement == 0).take(2).map(|c| json!({"mt": c.mt, "message": c.text})).collect::<Vec<_>>()));
    ev.assume("documented places of a code word: field 72 lines and block-3 tag 108 (SwiftMessage::has_reject_codes doc comment); the 119 flag participates in the method for every type alike");
    super::finish(ev, &col)
}

trait RejKey { fn rej_key(&self, o: &Obs) -> String; }
impl<T> RejKey for T { fn rej_key(&self, o: &Obs) -> String { format!("{}", o.rej) } }

pub fn replay(v: &Value) -> i32 {
    let mt = v["case"]["mt"].as_str().unwrap_or(""); let text = v["case"]["message"].as_str().unwrap_or("");
    let (a, b) = (observe(mt, text), observe(mt, text));
    if a != b { eprintln!("MACHINERY: replay diverged"); return 2; }
    println!("{text}\nobserved: {:?}\nrecorded: {}", a, v["what"]);
    0
}
