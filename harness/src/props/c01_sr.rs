//! C01 part 2 — explicit-state exploration (stateright) of the real `MessageParser`
//! (cursor + seen-set + duplicate flag) against a strict sequential reference consumer.
//!
//! State  = (text, snapshot of the real object, reference state, depth); the witness op history
//!          is carried along but excluded from Hash/Eq — it is only the recipe to rebuild the
//!          real object (MessageParser can be neither cloned nor positioned).
//! Action = one public API call on the real object.
//! Invariants after every action: (I1) conservation — the real cursor equals the byte offset of
//! the reference cursor; (I2) the call's result class equals the reference's.
use crate::common::{findings::{self, Collector}, guard::guarded, tok::{self, Tok}};
use crate::Ctx;
use serde_json::{json, Value};
use stateright::{Checker, Model, Property};
use std::hash::{Hash, Hasher};
use std::sync::atomic::{AtomicU64, Ordering};
use std::sync::{Arc, Mutex};
use swift_mt_message::fields::*;
use swift_mt_message::parser::MessageParser;

const SIGMA: [(&str, &str); 9] = [
    ("20", "REF1"), ("21", "REL/2"), ("23E", "HOLD"), ("50K", "/ACC1\nNAME ONE"), ("50A", "1/NAME TWO"),
    ("59", "BENEF NAME"), ("59A", "DEUTDEFF"), ("72", "/A/B:C\n-D E"), ("99Z", "JUNK"),
];
const PLAIN: [&str; 4] = ["20", "21", "23E", "72"];
const BASES: [&str; 2] = ["50", "59"];

#[derive(Clone, Copy, Debug, PartialEq, Eq, Hash)]
pub enum Op { Req(u8), Opt(u8), Rep(u8), Var(u8), OptVar(u8), Detect(u8), Dups(bool), Complete }

fn all_ops() -> Vec<Op> {
    let mut v = vec![];
    for i in 0..4u8 { v.push(Op::Req(i)); v.push(Op::Opt(i)); v.push(Op::Rep(i)); v.push(Op::Detect(i)); }
    for b in 0..2u8 { v.push(Op::Var(b)); v.push(Op::OptVar(b)); }
    v.push(Op::Dups(true)); v.push(Op::Dups(false)); v.push(Op::Complete);
    v
}
fn op_name(o: &Op) -> String {
    match o {
        Op::Req(i) => format!("parse_field({})", PLAIN[*i as usize]), Op::Opt(i) => format!("parse_optional_field({})", PLAIN[*i as usize]),
        Op::Rep(i) => format!("parse_repeated_field({})", PLAIN[*i as usize]), Op::Detect(i) => format!("detect_field({})", PLAIN[*i as usize]),
        Op::Var(b) => format!("parse_variant_field({})", BASES[*b as usize]), Op::OptVar(b) => format!("parse_optional_variant_field({})", BASES[*b as usize]),
        Op::Dups(f) => format!("with_duplicates({f})"), Op::Complete => "is_complete()".into(),
    }
}
fn op_class(o: &Op) -> &'static str {
    match o { Op::Req(_) => "parse_field", Op::Opt(_) => "parse_optional_field", Op::Rep(_) => "parse_repeated_field", Op::Detect(_) => "detect_field", Op::Var(_) => "parse_variant_field", Op::OptVar(_) => "parse_optional_variant_field", Op::Dups(_) => "with_duplicates", Op::Complete => "is_complete" }
}

/// result class of one call
#[derive(Clone, Debug, PartialEq, Eq, Hash)]
pub enum Res { Value(u8 /*number of values*/), NoneR, Missing, Duplicate, Invalid, Bool(bool), Unit, Panic }

fn res_class(r: &Res) -> &'static str { match r { Res::Value(_) => "value", Res::NoneR => "none", Res::Missing => "missing", Res::Duplicate => "duplicate", Res::Invalid => "invalid", Res::Bool(true) => "true", Res::Bool(false) => "false", Res::Unit => "unit", Res::Panic => "panic" } }

fn classify_err(e: &swift_mt_message::ParseError) -> Res {
    use swift_mt_message::ParseError as P;
    match e {
        P::MissingRequiredField { .. } => Res::Missing,
        P::InvalidFormat { message } if message.starts_with("Duplicate") => Res::Duplicate,
        P::InvalidFieldFormat(_) => Res::Invalid,
        _ => Res::Invalid,
    }
}

fn apply_real<'a>(p: MessageParser<'a>, op: &Op) -> (MessageParser<'a>, Res) {
    let mut p = p;
    macro_rules! plain { ($i:expr, $m:ident) => { match $i { 0 => p.$m::<Field20>("20").map(|_| ()), 1 => p.$m::<Field21NoOption>("21").map(|_| ()), 2 => p.$m::<Field23E>("23E").map(|_| ()), _ => p.$m::<Field72>("72").map(|_| ()) } }; }
    let r = match op {
        Op::Req(i) => match plain!(*i, parse_field) { Ok(()) => Res::Value(1), Err(e) => classify_err(&e) },
        Op::Opt(i) => {
            let r = match i { 0 => p.parse_optional_field::<Field20>("20").map(|x| x.is_some()), 1 => p.parse_optional_field::<Field21NoOption>("21").map(|x| x.is_some()), 2 => p.parse_optional_field::<Field23E>("23E").map(|x| x.is_some()), _ => p.parse_optional_field::<Field72>("72").map(|x| x.is_some()) };
            match r { Ok(true) => Res::Value(1), Ok(false) => Res::NoneR, Err(e) => classify_err(&e) }
        }
        Op::Rep(i) => {
            let r = match i { 0 => p.parse_repeated_field::<Field20>("20").map(|v| v.len()), 1 => p.parse_repeated_field::<Field21NoOption>("21").map(|v| v.len()), 2 => p.parse_repeated_field::<Field23E>("23E").map(|v| v.len()), _ => p.parse_repeated_field::<Field72>("72").map(|v| v.len()) };
            match r { Ok(n) => Res::Value(n as u8), Err(e) => classify_err(&e) }
        }
        Op::Detect(i) => Res::Bool(p.detect_field(PLAIN[*i as usize])),
        Op::Var(b) => {
            let r = if *b == 0 { p.parse_variant_field::<Field50OrderingCustomerAFK>("50").map(|_| ()) } else { p.parse_variant_field::<Field59>("59").map(|_| ()) };
            match r { Ok(()) => Res::Value(1), Err(e) => classify_err(&e) }
        }
        Op::OptVar(b) => {
            let r = if *b == 0 { p.parse_optional_variant_field::<Field50OrderingCustomerAFK>("50").map(|x| x.is_some()) } else { p.parse_optional_variant_field::<Field59>("59").map(|x| x.is_some()) };
            match r { Ok(true) => Res::Value(1), Ok(false) => Res::NoneR, Err(e) => classify_err(&e) }
        }
        Op::Dups(f) => { p = p.with_duplicates(*f); Res::Unit }
        Op::Complete => Res::Bool(p.is_complete()),
    };
    (p, r)
}

/// reference: strict sequential consumer over the token list
#[derive(Clone, Debug, PartialEq, Eq, Hash)]
pub struct RefState { cursor: u8, seen: Vec<String>, dups: bool }

fn variant_member(base: &str, tag: &str) -> bool {
    if tag == base { return true; }
    tag.len() == base.len() + 1 && tag.starts_with(base) && "ABCDFKL".contains(&tag[base.len()..])
}

fn apply_ref(r: &mut RefState, toks: &[Tok], op: &Op) -> Res {
    let next = toks.get(r.cursor as usize).map(|t| t.tag.as_str());
    let mut consume = |r: &mut RefState, tag: &str| { r.cursor += 1; if !r.dups && !r.seen.iter().any(|s| s == tag) { r.seen.push(tag.to_string()); r.seen.sort(); } };
    match op {
        Op::Req(i) => { let t = PLAIN[*i as usize];
            if !r.dups && r.seen.iter().any(|s| s == t) { return Res::Duplicate; }
            if next == Some(t) { consume(r, t); Res::Value(1) } else { Res::Missing } }
        Op::Opt(i) => { let t = PLAIN[*i as usize]; if next == Some(t) { consume(r, t); Res::Value(1) } else { Res::NoneR } }
        Op::Rep(i) => { let t = PLAIN[*i as usize]; let mut n = 0;
            while toks.get(r.cursor as usize).map(|x| x.tag.as_str()) == Some(t) { consume(r, t); n += 1; }
            Res::Value(n) }
        Op::Detect(i) => Res::Bool(next == Some(PLAIN[*i as usize])),
        Op::Var(b) => { let base = BASES[*b as usize];
            match next { Some(t) if variant_member(base, t) => { if !r.dups && r.seen.iter().any(|s| s == t) { return Res::Duplicate; } let t = t.to_string(); consume(r, &t); Res::Value(1) } _ => Res::Missing } }
        Op::OptVar(b) => { let base = BASES[*b as usize];
            match next { Some(t) if variant_member(base, t) => { let t = t.to_string(); consume(r, &t); Res::Value(1) } _ => Res::NoneR } }
        Op::Dups(f) => { r.dups = *f; Res::Unit }
        Op::Complete => Res::Bool(r.cursor as usize == toks.len()),
    }
}

#[derive(Clone, Debug)]
pub struct St { text: u32, pos: u32, r: RefState, depth: u8, absorbing: bool, new_finding: bool, ops: Vec<Op> }
impl PartialEq for St { fn eq(&self, o: &Self) -> bool { self.text == o.text && self.pos == o.pos && self.r == o.r && self.depth == o.depth && self.absorbing == o.absorbing } }
impl Eq for St {}
impl Hash for St { fn hash<H: Hasher>(&self, h: &mut H) { self.text.hash(h); self.pos.hash(h); self.r.hash(h); self.depth.hash(h); self.absorbing.hash(h); } }

pub struct PM {
    texts: Vec<(String, Vec<Tok>, Vec<u32> /*byte offset of token k*/)>,
    ops: Vec<Op>,
    max_depth: u8,
    known: std::collections::BTreeSet<String>,
    col: Arc<Mutex<Collector>>,
    transitions: Arc<AtomicU64>,
    consumed_seen: Arc<AtomicU64>, dup_seen: Arc<AtomicU64>,
    outcomes: Arc<Mutex<std::collections::HashSet<(String, Res)>>>,
}

fn texts(max_tokens: usize) -> Vec<(String, Vec<Tok>, Vec<u32>)> {
    let mut out = vec![];
    let mut cur: Vec<Vec<usize>> = vec![vec![]];
    let mut all: Vec<Vec<usize>> = vec![vec![]];
    for _ in 0..max_tokens {
        let mut nxt = vec![];
        for c in &cur { for s in 0..SIGMA.len() { let mut d = c.clone(); d.push(s); nxt.push(d); } }
        all.extend(nxt.clone()); cur = nxt;
    }
    for seq in all {
        let toks: Vec<Tok> = seq.iter().map(|&i| Tok { tag: SIGMA[i].0.into(), content: SIGMA[i].1.into() }).collect();
        let mut offs = vec![0u32]; let mut s = String::new();
        for t in &toks { s.push_str(&format!(":{}:{}\n", t.tag, t.content)); offs.push(s.len() as u32); }
        s.push('-');
        out.push((s, toks, offs));
    }
    out
}

impl PM {
    /// rebuild the real object by replaying the witness, then apply `op`; returns (position, result)
    fn real_step(&self, text: &str, witness: &[Op], op: &Op) -> Result<(u32, Res), String> {
        guarded(|| {
            let mut p = MessageParser::new(text, "103");
            for o in witness { let (q, _) = apply_real(p, o); p = q; }
            let (p, r) = apply_real(p, op);
            (p.position() as u32, r)
        })
    }
}

impl Model for PM {
    type State = St;
    type Action = Op;
    fn init_states(&self) -> Vec<St> {
        (0..self.texts.len()).map(|i| St { text: i as u32, pos: 0, r: RefState { cursor: 0, seen: vec![], dups: false }, depth: 0, absorbing: false, new_finding: false, ops: vec![] }).collect()
    }
    fn actions(&self, s: &St, actions: &mut Vec<Op>) {
        if s.absorbing || s.depth >= self.max_depth { return; }
        actions.extend(self.ops.iter().cloned());
    }
    fn next_state(&self, s: &St, op: Op) -> Option<St> {
        self.transitions.fetch_add(1, Ordering::Relaxed);
        let (text, toks, offs) = &self.texts[s.text as usize];
        let mut r = s.r.clone();
        let want = apply_ref(&mut r, toks, &op);
        let (pos, got) = match self.real_step(text, &s.ops, &op) { Ok(x) => x, Err(_loc) => (s.pos, Res::Panic) };
        let mut ops = s.ops.clone(); ops.push(op);
        if matches!(got, Res::Value(n) if n > 0) { self.consumed_seen.fetch_add(1, Ordering::Relaxed); }
        if got == Res::Duplicate { self.dup_seen.fetch_add(1, Ordering::Relaxed); }
        self.outcomes.lock().unwrap().insert((op_class(&op).to_string(), got.clone()));
        let want_pos = offs[r.cursor as usize];
        if std::env::var("SR_DEBUG").is_ok() && toks.len() == 1 && toks[0].tag == "72" { eprintln!("DBG {:?} {:?} got={:?} want={:?} pos={} want_pos={}", s.ops, op, got, want, pos, want_pos); }
        let mut bad: Option<(String, String)> = None;
        if got != want { bad = Some((format!("I2:{}->{}", res_class(&want), res_class(&got)), format!("result {:?}, reference {:?}", got, want))); }
        else if pos != want_pos {
            let class = if pos as usize == text.len() && want_pos as usize == text.len() - 1 { "terminator-swallowed" } else if pos > want_pos { "over-consumed" } else { "under-consumed" };
            bad = Some((format!("I1:{class}"), format!("cursor at byte {}, reference consumer at byte {} (token {})", pos, want_pos, r.cursor)));
        }
        if let Some((inv, what)) = bad {
            let key = format!("C01/MessageParser/{}/{}", op_class(&op), inv);
            // collection mode (VERIF_DUMP_FINDINGS): never stop at a discovery, gather every key
            let new = !self.known.contains(&key) && std::env::var("VERIF_DUMP_FINDINGS").is_err();
            let order = (s.text as u64) * 1000 + ops.len() as u64;
            self.col.lock().unwrap().add(key, order, || format!("{} after {}", what, op_name(&op)), || json!({"text": text, "ops": ops.iter().map(op_name).collect::<Vec<_>>()}));
            return Some(St { text: s.text, pos, r, depth: s.depth + 1, absorbing: true, new_finding: new, ops });
        }
        Some(St { text: s.text, pos, r, depth: s.depth + 1, absorbing: false, new_finding: false, ops })
    }
    fn properties(&self) -> Vec<Property<Self>> {
        vec![Property::<Self>::always("real MessageParser agrees with the strict sequential consumer (I1 conservation, I2 result class)", |_, s| !s.new_finding)]
    }
}

pub struct SrResult { pub col: Collector, pub states: u64, pub transitions: u64, pub traces: u64, pub distinct: u64, pub summary: Value, pub samples: Vec<Value> }

pub fn explore(ctx: &Ctx) -> SrResult {
    let (max_tokens, depth) = if ctx.thorough { (4usize, 5u8) } else { (3usize, 4u8) };
    let known = findings::load_known("C01").keys.keys().cloned().collect();
    let mut runs = vec![];
    let mut last: Option<(Collector, u64, u64, u64, Vec<Value>)> = None;
    for _round in 0..2 {
        let m = PM { texts: texts(max_tokens), ops: all_ops(), max_depth: depth, known: std::collections::BTreeSet::clone(&known), col: Arc::new(Mutex::new(Collector::new())), transitions: Arc::new(AtomicU64::new(0)), consumed_seen: Arc::new(AtomicU64::new(0)), dup_seen: Arc::new(AtomicU64::new(0)), outcomes: Arc::new(Mutex::new(Default::default())) };
        let (col, tr, cs, ds, oc) = (m.col.clone(), m.transitions.clone(), m.consumed_seen.clone(), m.dup_seen.clone(), m.outcomes.clone());
        let ntexts = m.texts.len();
        let sample_text = m.texts[ntexts / 2].0.clone();
        let checker = m.checker().threads(crate::common::par::threads()).spawn_dfs().join();
        let unique = checker.unique_state_count() as u64;
        let transitions = tr.load(Ordering::Relaxed);
        let mut samples = vec![json!({"text": sample_text, "ops": ["parse_field(20)", "parse_optional_field(72)", "is_complete()"], "note": "one (text, op sequence) of the explored space"})];
        for (name, path) in checker.discoveries() {
            let acts: Vec<String> = path.into_actions().iter().map(op_name).collect();
            samples.push(json!({"discovery": name, "shortest_ops": acts}));
        }
        let distinct = oc.lock().unwrap().len() as u64;
        runs.push(json!({"texts": ntexts, "max_tokens": max_tokens, "depth": depth, "ops": all_ops().len(), "unique_states": unique, "transitions": transitions, "consumed_a_field": cs.load(Ordering::Relaxed), "refused_a_duplicate": ds.load(Ordering::Relaxed), "distinct_(op,result)_pairs": distinct}));
        let c = col.lock().unwrap().clone();
        last = Some((c, unique, transitions, distinct, samples));
    }
    // determinism of the exploration: two runs must see the same state space
    if runs[0]["unique_states"] != runs[1]["unique_states"] || runs[0]["transitions"] != runs[1]["transitions"] {
        eprintln!("MACHINERY: stateright exploration not deterministic: {} vs {}", runs[0], runs[1]);
        std::process::exit(2);
    }
    let (col, unique, transitions, distinct, samples) = last.unwrap();
    if runs[0]["consumed_a_field"].as_u64() == Some(0) || distinct < 6 {
        eprintln!("MACHINERY: vacuous parser exploration ({})", runs[0]);
        std::process::exit(2);
    }
    SrResult { col, states: unique, transitions, traces: transitions, distinct, summary: json!({"engine": "stateright 0.31 spawn_dfs", "runs": runs, "state_key": "(text, real position, reference cursor+seen-set+flag, depth)", "non_vacuity": "reachability counters: consumed_a_field > 0, refused_a_duplicate > 0"}), samples }
}

pub fn replay(v: &Value) -> i32 {
    let case = &v["case"];
    let text = case["text"].as_str().unwrap_or("").to_string();
    let names: Vec<String> = case["ops"].as_array().map(|a| a.iter().map(|x| x.as_str().unwrap_or("").to_string()).collect()).unwrap_or_default();
    let ops: Vec<Op> = names.iter().filter_map(|n| all_ops().into_iter().find(|o| &op_name(o) == n)).collect();
    if ops.len() != names.len() { eprintln!("MACHINERY: unknown op in replay"); return 2; }
    let mut obs = vec![];
    for _ in 0..2 {
        let r = guarded(|| {
            let mut p = MessageParser::new(&text, "103"); let mut log = vec![];
            for o in &ops { let (q, r) = apply_real(p, o); p = q; log.push(format!("{} -> {:?} @{}", op_name(o), r, p.position())); }
            log
        });
        obs.push(format!("{:?}", r));
    }
    if obs[0] != obs[1] { eprintln!("MACHINERY: replay diverged"); return 2; }
    println!("text: {:?}\n{}", text, obs[0]);
    let toks = tok::tokenise(&text);
    let mut r = RefState { cursor: 0, seen: vec![], dups: false };
    for o in &ops { let res = apply_ref(&mut r, &toks, o); println!("reference: {} -> {:?} cursor={}", op_name(o), res, r.cursor); }
    0
}
