//! C10 — envelope integrity: blocks and headers are extracted and reproduced faithfully.
//! M4 (envelope grammar) explored exhaustively within its menus: block 1 / block 2 component
//! products and near-misses, all 2^13 subsets of block-3 tags, all 2^8 subsets of block-5 tags,
//! block presence combinations, and block-marker injection at every position of free-text values.
use crate::common::{ev::Evidence, findings::Collector, guard::{guarded, short_loc}, par};
use crate::{with_mt, Ctx};
use serde_json::{json, Value};
use std::collections::BTreeMap;
use swift_mt_message::headers::{ApplicationHeader, BasicHeader, Trailer, UserHeader};
use swift_mt_message::SwiftParser;

const B3: [(&str, &str, &str); 13] = [
    ("103", "EBA", "TG2"), ("113", "URGT", "NORM"), ("108", "MUR1234567890123", "A"), ("119", "STP", "REMIT"),
    ("423", "240719123045", "24071912304599"), ("106", "240719BANKBEBBAXXX0000000000", "991231ZZZZZZZZZ9998888777777"), ("424", "RELREF1234567890", "R"),
    ("111", "001", "999"), ("121", "3c8c5a1e-7a3b-4b5e-9f1a-1d2e3f4a5b6c", "00000000-0000-4000-8000-000000000000"), ("115", "ADDRESSEE INFORMATION 0123456789", "A"),
    ("165", "TPS/PAYMENT RELEASE INFORMATION 01", "ABC"), ("433", "AOK/SCREENED OK", "FPO"), ("434", "FPO/CONTROL INFORMATION", "NOK"),
];
const B5: [(&str, Option<&str>); 8] = [
    ("CHK", Some("123456789ABC")), ("TNG", None), ("PDE", Some("1348120811BANKFRPPAXXX2222123456")), ("DLM", None),
    ("MRF", Some("1806271539180626BANKFRPPAXXX2222123456")), ("PDM", Some("1213120811BANKFRPPAXXX2222123456")), ("SYS", Some("1454120811BANKFRPPAXXX2222123456")), ("MAC", Some("00000000")),
];

/// tag -> value of a `{tag:value}{tag}…` block (top-level tokens only)
fn block_tokens(s: &str) -> BTreeMap<String, String> {
    let mut m = BTreeMap::new(); let b = s.as_bytes(); let mut i = 0;
    while i < b.len() {
        if b[i] == b'{' { if let Some(j) = s[i..].find('}') { let inner = &s[i + 1..i + j]; let (t, v) = inner.split_once(':').unwrap_or((inner, "")); m.insert(t.to_string(), v.to_string()); i += j + 1; continue; } }
        i += 1;
    }
    m
}

fn body103() -> String { ":20:REF1\n:23B:CRED\n:32A:240719USD1000,50\n:50K:/12345678\nJOHN DOE\n:59:/87654321\nJANE ROE\n:70:INVOICE 1\n:71A:SHA\n:72:/INS/BANKDEFF\n".to_string() }

struct Acc { col: Collector, evals: u64, buckets: std::collections::HashSet<String> }
fn mk() -> Acc { Acc { col: Collector::new(), evals: 0, buckets: Default::default() } }

pub fn run(ctx: &Ctx) -> i32 {
    let mut ev = Evidence::new("C10", &ctx.tier, "exploration");
    let mut col = Collector::new(); let mut evals = 0u64; let mut buckets = std::collections::HashSet::new();
    let mut order = 0u64;
    // ---------------- block 1
    let lts = ["BANKBEBBAXXX", "BANKBEBBA123", "BANKBEBBXXXX", "BANKBEBBX123", "BANKBE22AXXX"];
    let mut b1: Vec<String> = vec![];
    for app in ["F", "A", "L"] { for svc in ["01", "21"] { for lt in lts { for ses in ["0000", "1234", "9999"] { for seq in ["000000", "654321", "999999"] { b1.push(format!("{app}{svc}{lt}{ses}{seq}")); } } } } }
    let mut b1_all: Vec<(String, bool)> = b1.iter().map(|s| (s.clone(), true)).collect();
    let base1 = "F01BANKBEBBAXXX0000000000";
    for l in 0..=27 { if l != 25 { let s: String = base1.chars().cycle().take(l).collect(); b1_all.push((s, false)); } }
    for (s, well_formed) in &b1_all {
        order += 1; evals += 1;
        match guarded(|| BasicHeader::parse(s).map(|h| (h.to_string(), h))) {
            Ok(Ok((d, h))) => {
                buckets.insert(format!("b1:{}:ok", well_formed));
                if !well_formed { col.add(format!("C10/block1/malformed-accepted:len={}", s.len().min(30)), order, || format!("{s:?} accepted"), || json!({"block1": s})); }
                else if &d != s { col.add("C10/block1/value-changed:display".into(), order, || format!("{s:?} -> {d:?}"), || json!({"block1": s})); }
                else if BasicHeader::parse(&d).ok().as_ref() != Some(&h) { col.add("C10/block1/value-changed:reparse".into(), order, || "re-parse differs".into(), || json!({"block1": s})); }
            }
            Ok(Err(_)) => { buckets.insert(format!("b1:{}:err", well_formed)); if *well_formed { col.add("C10/block1/wellformed-rejected".into(), order, || format!("{s:?} rejected"), || json!({"block1": s})); } }
            Err(_) => {}
        }
    }
    // ---------------- block 2
    let mut b2: Vec<(String, bool, String)> = vec![];
    for ty in ["103", "202", "940"] { for dest in ["BANKDEFFXXXX", "BANKDEFFA123"] { for pri in ["S", "N", "U"] {
        b2.push((format!("I{ty}{dest}{pri}"), true, "input".into()));
        for mon in ["1", "2", "3"] { b2.push((format!("I{ty}{dest}{pri}{mon}"), true, "input+monitoring".into())); for obs in ["003", "020"] { b2.push((format!("I{ty}{dest}{pri}{mon}{obs}"), true, "input+monitoring+obsolescence".into())); } }
    } } }
    for ty in ["103", "910"] { for pri in ["", "N", "U", "S"] { for t in ["0000", "1200", "2359"] { b2.push((format!("O{ty}{t}240719BANKBEBBAXXX0000123456240719{t}{pri}"), true, format!("output{}", if pri.is_empty() { "-no-priority" } else { "" }))); } } }
    // input date, MIR date, output date and the two times all different (delivered after midnight)
    for pri in ["", "N"] { b2.push((format!("O1992358251028BANKBEBBAXXX00001234562510290003{pri}"), true, "output-distinct-dates".into())); b2.push((format!("O9401159991231DEUTDEFFA1239999999999000101{}{pri}", "0001"), true, "output-distinct-dates".into())); }
    // near misses
    let in_base = "I103BANKDEFFXXXXN2020"; let out_base = "O1031200240719BANKBEBBAXXX00001234562407191201N";
    for l in 0..in_base.len() { let s = &in_base[..l]; let wf = l == 17 || l == 18 || l == 21; if !wf { b2.push((s.to_string(), false, format!("input-len={l}"))); } }
    b2.push(("I103BANKDEFFXXXXN20200".into(), false, "input-len=22".into()));
    for l in 0..out_base.len() { if l != 46 && l != 47 { b2.push((out_base[..l].to_string(), false, format!("output-len={}", if l < 4 { l.to_string() } else if l < 46 { "5..45".into() } else { l.to_string() }))); } }
    b2.push((format!("{out_base}X"), false, "output-len=48".into()));
    for d in ["X", "i", "o", "1", " "] { b2.push((format!("{d}103BANKDEFFXXXXN"), false, "direction".into())); }
    for t in ["1A3", "ABC", "10 "] { b2.push((format!("I{t}BANKDEFFXXXXN"), false, "type-not-numeric".into())); }
    for (s, wf, class) in &b2 {
        order += 1; evals += 1;
        match guarded(|| ApplicationHeader::parse(s).map(|h| (h.to_string(), h))) {
            Ok(Ok((d, h))) => {
                buckets.insert(format!("b2:{class}:ok"));
                if !wf { col.add(format!("C10/block2/malformed-accepted:{class}"), order, || format!("{s:?} accepted, displays {d:?}"), || json!({"block2": s})); }
                else if &d != s { col.add(format!("C10/block2/value-changed:{class}"), order, || format!("{s:?} -> {d:?}"), || json!({"block2": s})); }
                else if ApplicationHeader::parse(&d).ok().as_ref() != Some(&h) { col.add(format!("C10/block2/value-changed:reparse:{class}"), order, || "re-parse differs".into(), || json!({"block2": s})); }
            }
            Ok(Err(_)) => { buckets.insert(format!("b2:{class}:err")); if *wf { col.add(format!("C10/block2/wellformed-rejected:{class}"), order, || format!("{s:?} rejected"), || json!({"block2": s})); } }
            Err(_) => {}
        }
    }
    // ---------------- block 3: all 2^13 subsets (canonical order), boundary values, swapped pairs
    let mut b3_cases: Vec<String> = vec![];
    for mask in 0u32..(1 << 13) { let mut s = String::new(); for (i, (t, v, _)) in B3.iter().enumerate() { if mask & (1 << i) != 0 { s.push_str(&format!("{{{t}:{v}}}")); } } b3_cases.push(s); }
    for (t, _, v2) in B3 { b3_cases.push(format!("{{{t}:{v2}}}")); }
    for i in 0..13 { for j in 0..13 { if i != j { b3_cases.push(format!("{{{}:{}}}{{{}:{}}}", B3[j].0, B3[j].1, B3[i].0, B3[i].1)); } } }
    let b3_accs = par::par_for(b3_cases.len(), 256, mk, |i, a| {
        let s = &b3_cases[i]; a.evals += 1;
        let want = block_tokens(s);
        match guarded(|| UserHeader::parse(s).map(|h| (h.to_string(), h))) {
            Ok(Ok((d, h))) => {
                let got = block_tokens(&d);
                for (t, v) in &want {
                    match got.get(t) { None => { a.col.add(format!("C10/block3/tag-lost:{t}"), i as u64, || format!("{s:?} -> {d:?}"), || json!({"block3": s})); return; } Some(g) if g != v => { a.col.add(format!("C10/block3/value-changed:{t}"), i as u64, || format!("{v:?} -> {g:?}"), || json!({"block3": s})); return; } _ => {} }
                }
                if let Some(t) = got.keys().find(|t| !want.contains_key(*t)) { a.col.add(format!("C10/block3/tag-invented:{t}"), i as u64, || format!("{s:?} -> {d:?}"), || json!({"block3": s})); return; }
                if UserHeader::parse(&d).ok().as_ref() != Some(&h) { a.col.add("C10/block3/value-changed:reparse".into(), i as u64, || "re-parse differs".into(), || json!({"block3": s})); return; }
                a.buckets.insert(format!("b3:{}", want.len()));
            }
            Ok(Err(e)) => a.col.add("C10/block3/wellformed-rejected".into(), i as u64, || format!("{e}"), || json!({"block3": s})),
            Err(_) => {}
        }
    });
    for a in b3_accs { col.merge(a.col); evals += a.evals; buckets.extend(a.buckets); }
    // ---------------- block 5: all 2^8 subsets
    for mask in 0u32..(1 << 8) {
        order += 1; evals += 1;
        let mut s = String::new(); for (i, (t, v)) in B5.iter().enumerate() { if mask & (1 << i) != 0 { match v { Some(v) => s.push_str(&format!("{{{t}:{v}}}")), None => s.push_str(&format!("{{{t}}}")) } } }
        let want = block_tokens(&s);
        match guarded(|| Trailer::parse(&s).map(|h| (h.to_string(), h))) {
            Ok(Ok((d, h))) => {
                let got = block_tokens(&d); let mut bad = false;
                for (t, v) in &want {
                    match got.get(t) { None => { col.add(format!("C10/block5/tag-lost:{t}"), order, || format!("{s:?} -> {d:?}"), || json!({"block5": s})); bad = true; break; } Some(g) if g != v => { col.add(format!("C10/block5/value-changed:{t}"), order, || format!("{v:?} -> {g:?}"), || json!({"block5": s})); bad = true; break; } _ => {} }
                }
                if !bad { if Trailer::parse(&d).ok().as_ref() != Some(&h) { col.add("C10/block5/value-changed:reparse".into(), order, || "re-parse differs".into(), || json!({"block5": s})); } else { buckets.insert(format!("b5:{}", want.len())); } }
            }
            Ok(Err(e)) => col.add("C10/block5/wellformed-rejected".into(), order, || format!("{e}"), || json!({"block5": s})),
            Err(_) => {}
        }
    }
    // ---------------- whole messages: every subset of block-3 tags and of block-5 tags through parse + to_mt_message
    // (the message-level writer decides on its own whether a block is "empty")
    {
        let mut cases: Vec<(String, String, String)> = vec![]; // (block3 text or "", block5 text or "", class)
        for mask in 0u32..(1 << 13) { let mut t = String::new(); let mut n = 0; for (i, (tag, v, _)) in B3.iter().enumerate() { if mask & (1 << i) != 0 { t.push_str(&format!("{{{tag}:{v}}}")); n += 1; } } if n > 0 { cases.push((format!("{{3:{t}}}"), String::new(), format!("b3-subset-of-{}", n.min(3)))); } }
        for mask in 1u32..(1 << 8) { let mut t = String::new(); let mut n = 0; for (i, (tag, v)) in B5.iter().enumerate() { if mask & (1 << i) != 0 { match v { Some(v) => t.push_str(&format!("{{{tag}:{v}}}")), None => t.push_str(&format!("{{{tag}}}")) } n += 1; } } cases.push((String::new(), format!("{{5:{t}}}"), format!("b5-subset-of-{}", n.min(3)))); }
        // the id of another tag followed by ':' inside a value (no brace): still content of the host tag
        for (hi, (host, _, _)) in B3.iter().enumerate() { if !["108", "115", "424"].contains(host) { continue; } for (oi, (other, ov, _)) in B3.iter().enumerate() { if hi == oi { continue; }
            for with_other in [false, true] {
                let mut t = String::new();
                for (i, (tag, v, _)) in B3.iter().enumerate() { if i == hi { t.push_str(&format!("{{{tag}:A{other}:B}}")); } else if i == oi && with_other { t.push_str(&format!("{{{tag}:{v}}}")); } }
                let _ = ov; cases.push((format!("{{3:{t}}}"), String::new(), format!("b3-tag-id-in-value:{host}")));
            } } }
        for (host, other) in [("CHK", "MAC"), ("MAC", "CHK"), ("CHK", "PDE"), ("MAC", "SYS")] { for with_other in [false, true] {
            let ov = B5.iter().find(|(t, _)| *t == other).and_then(|(_, v)| *v).unwrap_or("0");
            let t = format!("{{{host}:A{other}:B}}{}", if with_other { format!("{{{other}:{ov}}}") } else { String::new() });
            cases.push((String::new(), format!("{{5:{t}}}"), format!("b5-tag-id-in-value:{host}")));
        } }
        let accs = par::par_for(cases.len(), 128, mk, |i, a| {
            let (b3, b5, class) = &cases[i]; a.evals += 1;
            let msg = format!("{{1:F01BANKBEBBAXXX0000000000}}{{2:I103BANKDEFFXXXXN}}{b3}{{4:\n{}-}}{b5}", body103());
            let toks_of = |s: &str, b: u8| -> String { match SwiftParser::extract_block(s, b).ok().flatten() { Some(x) => format!("{:?}", block_tokens(&x)), None => "<absent>".into() } };
            match guarded(|| SwiftParser::parse::<swift_mt_message::messages::MT103>(&msg).map(|m| m.to_mt_message())) {
                Ok(Ok(out)) => {
                    let (w3, g3, w5, g5) = (toks_of(&msg, 3), toks_of(&out, 3), toks_of(&msg, 5), toks_of(&out, 5));
                    if w3 != g3 { a.col.add(format!("C10/message/block3-not-reproduced:{class}"), i as u64, || format!("{w3} -> {g3}"), || json!({"mt": "103", "message": msg})); }
                    else if w5 != g5 { a.col.add(format!("C10/message/block5-not-reproduced:{class}"), i as u64, || format!("{w5} -> {g5}"), || json!({"mt": "103", "message": msg})); }
                    else { a.buckets.insert(format!("msgsub:{class}")); }
                }
                Ok(Err(e)) => a.col.add(format!("C10/message/wellformed-rejected:{class}"), i as u64, || format!("{e}"), || json!({"mt": "103", "message": msg})),
                Err(_) => {}
            }
        });
        for a in accs { col.merge(a.col); evals += a.evals; buckets.extend(a.buckets); }
    }
    // ---------------- whole messages: block presence combinations, reproduced blocks
    let b3_full = format!("{{3:{}}}", B3.iter().map(|(t, v, _)| format!("{{{t}:{v}}}")).collect::<String>());
    let b5_full = "{5:{CHK:123456789ABC}{TNG}{DLM}{MAC:00000000}}".to_string();
    for (h2name, h2) in [("input", "{2:I103BANKDEFFXXXXU3003}".to_string()), ("output", format!("{{2:{out_base}}}")), ("output-no-priority", format!("{{2:{}}}", &out_base[..46]))] {
        for with3 in [false, true] { for with5 in [false, true] {
            order += 1; evals += 1;
            let msg = format!("{{1:F01BANKBEBBAXXX0000000000}}{h2}{}{{4:\n{}-}}{}", if with3 { b3_full.as_str() } else { "" }, body103(), if with5 { b5_full.as_str() } else { "" });
            let class = format!("{h2name}:b3={with3}:b5={with5}");
            match guarded(|| SwiftParser::parse::<swift_mt_message::messages::MT103>(&msg).map(|m| m.to_mt_message())) {
                Ok(Ok(out)) => {
                    // blocks compared as (block -> tag/value map); block 4 literally. Tag order inside a block is not part of the property.
                    let norm = |s: &str| -> Vec<String> {
                        let mut v = vec![];
                        for b in 1..=5u8 { let blk = SwiftParser::extract_block(s, b).ok().flatten(); v.push(match (b, blk) { (3, Some(x)) | (5, Some(x)) => format!("{:?}", block_tokens(&x)), (4, Some(x)) => x.trim().to_string(), (_, Some(x)) => x, (_, None) => "<absent>".into() }); }
                        v
                    };
                    if norm(&out) != norm(&msg) { col.add(format!("C10/message/blocks-not-reproduced:{class}"), order, || format!("{out:?}"), || json!({"mt": "103", "message": msg})); } else { buckets.insert(format!("msg:{class}")); }
                }
                Ok(Err(e)) => col.add(format!("C10/message/wellformed-rejected:{class}"), order, || format!("{e}"), || json!({"mt": "103", "message": msg})),
                Err(_) => {}
            }
        } }
    }
    // ---------------- injection of block markers into free-text values (differential vs neutral text)
    let markers = ["{1:", "{2:", "{3:", "{4:", "{5:", "-}", "}", "{", "}{", "{4:\n"];
    let hosts: Vec<(&str, &str, String)> = vec![
        ("103", "20", "REFERENCE0123456".into()), ("103", "70", "LINE ONE OF REMITTANCE INFO\nLINE TWO".into()), ("103", "72", "/INS/BANKDEFF\n//MORE INFORMATION".into()),
        ("103", "77T", "/UEDI/UNH+123+INVOIC:D:96A:UN\nSECOND LINE OF ENVELOPE".into()), ("199", "79", "NARRATIVE LINE ONE\nNARRATIVE LINE TWO".into()),
    ];
    let mut inj: Vec<(usize, usize, usize)> = vec![];
    for (hi, (_, _, v)) in hosts.iter().enumerate() { for mi in 0..markers.len() { for pos in 0..=v.len() { if markers[mi].len() + pos <= v.len() || true { inj.push((hi, mi, pos)); } } } }
    let inj_accs = par::par_for(inj.len(), 64, mk, |i, a| {
        let (hi, mi, pos) = inj[i]; let (mt, host, val) = &hosts[hi]; let marker = markers[mi];
        if !val.is_char_boundary(pos) { return; }
        // overwrite (not insert) so that length limits stay satisfied; neutral = same length of 'Z' / newline kept
        let end = (pos + marker.len()).min(val.len());
        if end - pos < marker.len() { return; }
        if val[pos..end].contains('\n') && !marker.contains('\n') { return; }
        // a line that starts with "-}" *is* the end of block 4 by structure: not an injection
        if marker == "-}" && (pos == 0 || val.as_bytes()[pos - 1] == b'\n') { return; }
        let injected = format!("{}{}{}", &val[..pos], marker, &val[end..]);
        let neutral: String = format!("{}{}{}", &val[..pos], marker.chars().map(|c| if c == '\n' { '\n' } else { 'Z' }).collect::<String>(), &val[end..]);
        let build = |v: &str| -> String {
            let b4 = if *mt == "199" { format!(":20:REF1\n:79:{}\n", if *host == "79" { v } else { "NARRATIVE" }) } else {
                format!(":20:{}\n:23B:CRED\n:32A:240719USD1000,50\n:50K:/12345678\nJOHN DOE\n:59:/87654321\nJANE ROE\n:70:{}\n:71A:SHA\n:72:{}\n:77T:{}\n", if *host == "20" { v } else { "REF1" }, if *host == "70" { v } else { "INVOICE 1" }, if *host == "72" { v } else { "/INS/BANKDEFF" }, if *host == "77T" { v } else { "ENVELOPE" })
            };
            format!("{{1:F01BANKBEBBAXXX0000000000}}{{2:I{mt}BANKDEFFXXXXN}}{{3:{{108:{}}}}}{{4:\n{b4}-}}{{5:{{CHK:123456789ABC}}}}", if *host == "108" { v } else { "MUR1" })
        };
        let (mi_msg, mn_msg) = (build(&injected), build(&neutral));
        a.evals += 1;
        let obs = |m: &str| -> Result<Value, String> {
            with_mt!(*mt, T => match guarded(|| SwiftParser::parse::<T>(m)) { Ok(Ok(p)) => Ok(serde_json::to_value(&p).unwrap_or(Value::Null)), Ok(Err(e)) => Err(format!("{e}")), Err(l) => Err(format!("panic@{}", short_loc(&l))) }, else => Err("type".into()))
        };
        let (oi, on) = (obs(&mi_msg), obs(&mn_msg));
        let case = || json!({"mt": mt, "host": host, "marker": marker, "message": mi_msg, "neutral": mn_msg});
        match (&oi, &on) {
            (Ok(ji), Ok(jn)) => {
                let zz: String = marker.chars().map(|c| if c == '\n' { '\n' } else { 'Z' }).collect();
                let want = if marker.contains('\n') { serde_json::from_str::<Value>(&jn.to_string().replace(&neutral_json(zz.trim_end()), &neutral_json(marker.trim_end()))).unwrap_or(Value::Null) } else { serde_json::from_str::<Value>(&jn.to_string().replace(&neutral_json(&zz), &neutral_json(marker))).unwrap_or(Value::Null) };
                if *ji != want { let d = super::c02::first_diff(&want, ji, "").unwrap_or_default(); a.col.add(format!("C10/injection/block-misextracted:{}@{host}", marker.trim()), i as u64, || format!("differs at {d}"), case); } else { a.buckets.insert(format!("inj:{host}:{}", marker.trim())); }
            }
            (Err(e), Ok(_)) => { if !e.starts_with("panic") { a.col.add(format!("C10/injection/block-misextracted:{}@{host}:rejected", marker.trim()), i as u64, || format!("neutral text accepted, injected text rejected: {e}"), case); } }
            (Ok(_), Err(e)) => { a.col.add(format!("C10/injection/block-misextracted:{}@{host}:accepted", marker.trim()), i as u64, || format!("neutral text rejected ({e}), injected accepted"), case); }
            (Err(_), Err(_)) => { a.buckets.insert(format!("inj:{host}:{}:both-rejected", marker.trim())); }
        }
    });
    for a in inj_accs { col.merge(a.col); evals += a.evals; buckets.extend(a.buckets); }
    let _ = ctx;
    ev.set("evaluations", json!(evals)); ev.set("distinct_nontrivial", json!(buckets.len()));
    ev.set("block3_subsets", json!(1 << 13)); ev.set("block5_subsets", json!(1 << 8)); ev.set("injection_cases", json!(inj.len()));
    ev.set("rule", json!("block 1: product of application id x service id x 5 LT/BIC forms x session x sequence + every wrong length 0..27; block 2: input (3 types x 2 destinations x 3 priorities x monitoring x obsolescence) and output (priority present/absent) products + every truncation length, wrong direction letters, non-numeric type; block 3: ALL 2^13 subsets of the documented tags in canonical order, boundary values, all ordered pairs; block 5: ALL 2^8 subsets; whole messages: 3 application-header forms x block 3 x block 5 present/absent; injection: 10 block markers overwritten at every position of 6 free-text values, compared differentially with a neutral same-length text. Oracle: accepted header => Display reproduces every recognised tag/value and re-parses equal; malformed => Err; injected parse == neutral parse except the value itself. distinct = outcome classes"));
    ev.set("samples", json!([{"block3": b3_cases[5000]}, {"block2": "I103BANKDEFFXXXXN2"}, {"host": "70", "marker": "{5:"}]));
    ev.set("exhaustive", json!(true));
    ev.assume("documented block-3 tags: 103 113 108 119 423 106 424 111 121 115 165 433 434; block-5 tags: CHK TNG PDE DLM MRF PDM SYS MAC (doc comments of src/headers/mod.rs)");
    super::finish(ev, &col)
}

fn neutral_json(s: &str) -> String { let j = serde_json::to_string(s).unwrap(); j[1..j.len() - 1].to_string() }

pub fn replay(v: &Value) -> i32 {
    let c = &v["case"];
    let o = |_: ()| -> String {
        if let Some(s) = c.get("block1").and_then(|x| x.as_str()) { return format!("{:?}", guarded(|| BasicHeader::parse(s).map(|h| h.to_string()).map_err(|e| e.to_string()))); }
        if let Some(s) = c.get("block2").and_then(|x| x.as_str()) { return format!("{:?}", guarded(|| ApplicationHeader::parse(s).map(|h| h.to_string()).map_err(|e| e.to_string()))); }
        if let Some(s) = c.get("block3").and_then(|x| x.as_str()) { return format!("{:?}", guarded(|| UserHeader::parse(s).map(|h| h.to_string()).map_err(|e| e.to_string()))); }
        if let Some(s) = c.get("block5").and_then(|x| x.as_str()) { return format!("{:?}", guarded(|| Trailer::parse(s).map(|h| h.to_string()).map_err(|e| e.to_string()))); }
        if let Some(s) = c.get("message").and_then(|x| x.as_str()) { let mt = c["mt"].as_str().unwrap_or("103"); return with_mt!(mt, T => format!("{:?}", guarded(|| SwiftParser::parse::<T>(s).map(|m| m.to_mt_message()).map_err(|e| e.to_string()))), else => "?".into()); }
        "?".into()
    };
    let (a, b) = (o(()), o(()));
    if a != b { eprintln!("MACHINERY: replay diverged"); return 2; }
    println!("observed: {a}\nrecorded: {}", v["what"]);
    0
}
