//! C05 — field parsers accept exactly their documented SWIFT format.
//! E-boundary (every single-character / single-line deviation of every valid instance, every
//! class representative at every position) + E-small (all strings of length <= L over a
//! 14-symbol class alphabet) through every registered field type; verdict by the M1 recogniser.
use crate::common::{ev::Evidence, findings::Collector, guard::guarded, par};
use crate::spec::{families::FAMILIES, m1::{self, V}};
use crate::{with_field, Ctx};
use serde_json::{json, Value};
use swift_mt_message::SwiftField;

pub const SMALL_ALPHABET: [&str; 14] = ["A", "a", "1", "/", ",", ".", "-", ":", "+", " ", "\n", "{", "\u{e9}", "\u{0660}"];

pub fn small_strings(max_len: usize) -> Vec<String> {
    let mut all = vec![String::new()]; let mut cur = vec![String::new()];
    for _ in 0..max_len {
        let mut nxt = Vec::with_capacity(cur.len() * 14);
        for c in &cur { for s in SMALL_ALPHABET { let mut d = c.clone(); d.push_str(s); nxt.push(d); } }
        all.extend(nxt.iter().cloned()); cur = nxt;
    }
    all
}

/// every single deviation of a valid instance: one character inserted / deleted / substituted
/// (one representative per character class), one line duplicated / removed / added / emptied
pub fn boundary_mutations(s: &str) -> Vec<String> {
    let reps = ['A', 'a', 'Z', '0', '1', '6', '9', '/', ',', '.', '-', ':', '+', ' ', '\n', '{', '\u{e9}', '\u{0660}', '~'];
    let cs: Vec<char> = s.chars().collect();
    let mut out = vec![];
    for i in 0..=cs.len() {
        for r in reps { let mut v = cs.clone(); v.insert(i, r); out.push(v.iter().collect()); }
        if i < cs.len() {
            let mut v = cs.clone(); v.remove(i); out.push(v.iter().collect());
            for r in reps { if cs[i] != r { let mut v = cs.clone(); v[i] = r; out.push(v.iter().collect()); } }
        }
    }
    // byte-length preserving non-ASCII: k adjacent one-byte characters replaced by one k-byte character
    // (passes every `len() == n` guard and lands a character boundary inside a fixed-offset slice)
    for (k, wide) in [(2usize, '\u{e9}'), (3, '\u{20ac}'), (4, '\u{1f600}')] {
        if cs.len() < k { continue; }
        for i in 0..=(cs.len() - k) {
            if cs[i..i + k].iter().any(|c| !c.is_ascii() || *c == '\n') { continue; }
            let mut v: Vec<char> = cs[..i].to_vec(); v.push(wide); v.extend_from_slice(&cs[i + k..]); out.push(v.iter().collect());
        }
    }
    let lines: Vec<&str> = s.split('\n').collect();
    for i in 0..lines.len() {
        let mut l = lines.clone(); l.insert(i, lines[i]); out.push(l.join("\n"));
        if lines.len() > 1 { let mut l = lines.clone(); l.remove(i); out.push(l.join("\n")); }
        let mut l = lines.clone(); l[i] = ""; out.push(l.join("\n"));
        // grow / shrink the line by two characters (length max+2 / min-2)
        out.push({ let mut l: Vec<String> = lines.iter().map(|x| x.to_string()).collect(); l[i].push_str("XX"); l.join("\n") });
    }
    out.push(format!("{s}\nEXTRA LINE")); out.push(format!("{s}\n")); out.push(format!("\n{s}")); out.push(format!("{s} ")); out.push(format!(" {s}"));
    out
}

fn shape(c: &str) -> String { format!("lines={}{}", c.split('\n').count().min(7), if c.starts_with('/') { ",slash" } else { "" }) }

struct Acc { col: Collector, evals: u64, judged: u64, unspec: u64, panics: u64, acc_ok: u64, buckets: std::collections::HashSet<String> }
fn mk() -> Acc { Acc { col: Collector::new(), evals: 0, judged: 0, unspec: 0, panics: 0, acc_ok: 0, buckets: Default::default() } }

pub fn judge_kind(kind: &'static str, ty: &'static str, c: &str, order: u64, a: &mut Acc) {
    let k = m1::kind(kind).unwrap();
    let v = (k.rec)(c);
    a.evals += 1;
    with_field!(ty, T => {
        let r = match guarded(|| <T as SwiftField>::parse(c)) { Ok(r) => r, Err(_) => { a.panics += 1; return; } };
        let case = || json!({"field": ty, "content": c});
        match (&v, &r) {
            (V::Unspec(why), Ok(f)) => {
                // Where the format is silent on whether the input is legal, accepting it is not judged -- but
                // an accepted value must still carry everything that was written: the serialised field may
                // differ from the input only in canonical formatting (zeros, separators, slashes, blanks).
                a.unspec += 1;
                if let Ok(s) = guarded(|| f.to_swift_string()) {
                    let body = s.splitn(3, ':').nth(2).unwrap_or("");
                    let sk = |x: &str| -> String { x.chars().filter(|c| !matches!(c, ',' | '.' | '0' | ' ' | '\n' | '\r' | '/')).collect() };
                    if sk(c) != sk(body) { a.col.add(format!("C05/{ty}/unspecified-input-altered/{why}"), order, || format!("read {:?}, holds {:?}", c, body), case); }
                }
            }
            (V::Unspec(_), _) => { a.unspec += 1; }
            (V::Reject(why), Ok(_)) => { a.judged += 1; a.col.add(format!("C05/{ty}/over-accept/{why}"), order, || format!("accepted {:?}", c), case); }
            (V::Accept(_), Err(e)) => { a.judged += 1; a.col.add(format!("C05/{ty}/reject-valid/{}", shape(c)), order, || format!("{e}"), case); }
            (V::Reject(why), Err(_)) => { a.judged += 1; a.buckets.insert(format!("{ty}:rej:{why}")); }
            (V::Accept(comps), Ok(f)) => {
                a.judged += 1; a.acc_ok += 1; a.buckets.insert(format!("{ty}:acc:{}", shape(c)));
                // nothing ignored, truncated or re-numbered: the value re-serialises to the same components
                let s = match guarded(|| f.to_swift_string()) { Ok(s) => s, Err(_) => { a.panics += 1; return; } };
                let body = s.splitn(3, ':').nth(2).unwrap_or("");
                match m1::components(kind, body) {
                    Some(out) if &out == comps => {}
                    Some(out) => {
                        let diff = comps.iter().zip(out.iter()).find(|(x, y)| x != y).map(|(x, _)| x.0).unwrap_or(if out.len() < comps.len() { comps[out.len()].0 } else { "extra" });
                        a.col.add(format!("C05/{ty}/component-mismatch/{diff}"), order, || format!("read {:?}, holds {:?}", c, body), case);
                    }
                    None => a.col.add(format!("C05/{ty}/component-mismatch/unreadable-output"), order, || format!("read {:?}, serialises {:?}", c, body), case),
                }
            }
        }
    }, else => {});
}

pub fn run(ctx: &Ctx) -> i32 {
    let mut ev = Evidence::new("C05", &ctx.tier, "exploration");
    let small = small_strings(if ctx.thorough { 5 } else { 4 });
    // jobs: (kind idx, candidate) — built per kind, evaluated in parallel
    let kinds = m1::kinds();
    let mut per_kind: Vec<Vec<String>> = vec![];
    for k in kinds {
        let mut c: Vec<String> = vec![];
        for (_, inst) in (k.insts)() {
            c.push(inst.clone());
            let m1_ = boundary_mutations(&inst);
            if ctx.thorough && inst.len() <= 40 { for m in &m1_ { if m.len() <= 45 { c.extend(boundary_mutations(m).into_iter().step_by(7)); } } }
            c.extend(m1_);
        }
        c.sort(); c.dedup();
        per_kind.push(c);
    }
    let mut jobs: Vec<(usize, usize, bool)> = vec![]; // (kind idx, candidate idx, from small set)
    for (ki, c) in per_kind.iter().enumerate() { for ci in 0..c.len() { jobs.push((ki, ci, false)); } for si in 0..small.len() { jobs.push((ki, si, true)); } }
    let n = jobs.len();
    let accs = par::par_for(n, 4096, mk, |i, a| {
        let (ki, ci, sm) = jobs[i];
        let k = &kinds[ki];
        let c = if sm { &small[ci] } else { &per_kind[ki][ci] };
        judge_kind(k.tag, k.ty, c, i as u64, a);
    });
    let mut col = Collector::new(); let mut tot = mk();
    for a in accs { col.merge(a.col); tot.evals += a.evals; tot.judged += a.judged; tot.unspec += a.unspec; tot.panics += a.panics; tot.acc_ok += a.acc_ok; tot.buckets.extend(a.buckets); }
    // ---- enum families: a content every option's grammar rejects must be rejected by the family parser
    let mut fjobs: Vec<(usize, String)> = vec![];
    for (fi, (_ty, _num, members)) in FAMILIES.iter().enumerate() {
        let mut c: Vec<String> = vec![];
        for m in members.iter() { let ki = kinds.iter().position(|k| k.tag == *m).unwrap(); c.extend(per_kind[ki].iter().cloned()); }
        c.extend(small.iter().filter(|s| s.len() <= 4).cloned());
        c.sort(); c.dedup();
        for x in c { fjobs.push((fi, x)); }
    }
    let fnn = fjobs.len();
    let faccs = par::par_for(fnn, 4096, mk, |i, a| {
        let (fi, c) = &fjobs[i];
        let (ty, _num, members) = FAMILIES[*fi];
        if ty == "Field60" || ty == "Field62" { return; } // documented: "should not be parsed directly"
        a.evals += 1;
        let verdicts: Vec<V> = members.iter().map(|m| (m1::kind(m).unwrap().rec)(c)).collect();
        if !verdicts.iter().all(|v| matches!(v, V::Reject(_))) { a.unspec += 1; return; }
        with_field!(ty, T => {
            match guarded(|| <T as SwiftField>::parse(c).map(|f| f.to_swift_string())) {
                Err(_) => a.panics += 1,
                Ok(Err(_)) => { a.judged += 1; a.buckets.insert(format!("{ty}:rej")); }
                Ok(Ok(s)) => {
                    a.judged += 1;
                    let tag = s.splitn(3, ':').nth(1).unwrap_or("").to_string();
                    let why = m1::kind(&tag).map(|k| match (k.rec)(c) { V::Reject(w) => w, _ => "?" }).unwrap_or("?");
                    a.col.add(format!("C05/{ty}/over-accept/as-{tag}:{why}"), (n + i) as u64, || format!("accepted {:?} as {}", c, tag), || json!({"field": ty, "content": c}));
                }
            }
        }, else => {});
    });
    for a in faccs { col.merge(a.col); tot.evals += a.evals; tot.judged += a.judged; tot.unspec += a.unspec; tot.panics += a.panics; tot.buckets.extend(a.buckets); }
    ev.set("evaluations", json!(tot.evals)); ev.set("judged", json!(tot.judged)); ev.set("unspecified", json!(tot.unspec)); ev.set("panics_left_to_C07", json!(tot.panics)); ev.set("accepted_and_component_checked", json!(tot.acc_ok));
    ev.set("distinct_nontrivial", json!(tot.buckets.len()));
    ev.set("small_scope", json!({"alphabet": SMALL_ALPHABET, "max_len": if ctx.thorough { 5 } else { 4 }, "strings": small.len()}));
    ev.set("rule", json!("per concrete field type (85 kinds): every valid instance (typical / min / max boundaries, optional parts toggled) and every single deviation of it (one character inserted, deleted or substituted at every position by one representative of each of 15 character classes incl. 2-byte letter and Unicode digit; one line duplicated, removed, emptied, grown; leading/trailing space and line) [thorough: a 1/7 systematic sub-grid of pairs of deviations], plus ALL strings of length <= L over a 14-symbol class alphabet; per enum family (23): the union of its options' candidates, judged only where every option's grammar rejects. Oracle: M1 recogniser Accept / Reject / Unspecified; accepted values must re-serialise to the same components. distinct = (type, verdict, reject clause or shape)"));
    ev.set("samples", json!([{"field": "Field52A", "content": "DEUTDEFF\nEXTRA LINE"}, {"field": "Field20", "content": "A//B"}, {"field": "Field32A", "content": "240229USD1,"}]));
    ev.set("exhaustive", json!(false));
    ev.assume("documented format = **Format:** line + doc comments of src/fields/*.rs and the helpers they name; where they are silent or contradictory the case is Unspecified (counted, never a violation)");
    super::finish(ev, &col)
}

pub fn replay(v: &Value) -> i32 {
    let ty = v["case"]["field"].as_str().unwrap_or(""); let content = v["case"]["content"].as_str().unwrap_or("");
    let r = super::c11::replay(v);
    if let Some(k) = m1::kinds().iter().find(|k| k.ty == ty) { println!("M1 verdict: {:?}", (k.rec)(content)); }
    r
}
