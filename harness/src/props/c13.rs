//! C13 — validation entry points are coherent, order-stable and side-effect free.
//! Same state space as C04 (rule valuations, valid and multiply-violating, + the layout corpus);
//! on each message object all call histories of length <= 3 over the five entry points.
use crate::common::ev::Evidence;
use crate::Ctx;
use serde_json::json;

pub fn run(ctx: &Ctx) -> i32 {
    let mut ev = Evidence::new("C13", &ctx.tier, "model_checking");
    let (col, detail, evals, transitions, validated, distinct, samples) = super::c04::explore(ctx, super::c04::Mode::Coherence);
    ev.set("states", json!(evals)); ev.set("transitions", json!(super::c04::CALLS.load(std::sync::atomic::Ordering::Relaxed).max(1)));
    ev.set("traces_validated_against_impl", json!(validated)); ev.set("evaluations", json!(evals));
    ev.set("distinct_nontrivial", json!(distinct)); ev.set("detail", detail); ev.set("dimension_changes", json!(transitions));
    ev.set("rule", json!("states = the C04 valuations (valid and rule-violating, incl. several violations at once) and the layout corpus of the rule-free types; on every message object: stop-on-first list is a prefix of the full list and empty iff it is; SwiftMessage::validate, ParsedSwiftMessage::validate and the validate_mt plugin agree with the full list (codes and order; the last two only when the serialised text re-parses to the same message); then all 5 + 25 + 125 call histories of length <= 3 over {validate_network_rules(true), (false), SwiftMessage::validate, ParsedSwiftMessage::validate, validate_mt}: every call returns what the first call of its kind returned and JSON + Debug of the message are unchanged. transitions = calls made in histories"));
    ev.set("samples", json!(samples)); ev.set("exhaustive", json!(false));
    ev.assume("error lists are compared by code and order, not by message text");
    super::finish(ev, &col)
}
pub fn replay(v: &serde_json::Value) -> i32 { super::c04::replay(v) }
