//! C14 — field option letters decide the variant and are preserved.
use crate::common::{ev::Evidence, findings::Collector, guard::guarded, par, tok::{self, Tok}};
use crate::spec::{self, corpus::corpus, families::{kinds_with_number, FAMILIES}, m1::{self, V}, m2::{self, Msg}};
use crate::{with_field, with_mt, Ctx};
use serde_json::{json, Value};
use swift_mt_message::{SwiftField, SwiftParser};

fn own_parser_accepts(kind: &str, content: &str) -> Option<bool> { super::c01::field_parse_ok(kind, content) }

fn tag_of(s: &str) -> String { s.splitn(3, ':').nth(1).unwrap_or("").to_string() }
fn body_of(s: &str) -> String { s.splitn(3, ':').nth(2).unwrap_or("").to_string() }

struct Acc { col: Collector, evals: u64, buckets: std::collections::HashSet<String> }
fn mk() -> Acc { Acc { col: Collector::new(), evals: 0, buckets: Default::default() } }

pub fn run(ctx: &Ctx) -> i32 {
    let mut ev = Evidence::new("C14", &ctx.tier, "exploration");
    // ---------- field level
    // None = no letter given to the API (letter-less parsing); Some("") = a tag written without letter (what the message parser passes)
    let letters: Vec<Option<String>> = [None, Some(String::new())].into_iter().chain(('A'..='Z').map(|c| Some(c.to_string()))).collect();
    let mut jobs: Vec<(usize, usize, String)> = vec![]; // (family idx, letter idx, content)
    for (fi, (_ty, num, _members)) in FAMILIES.iter().enumerate() {
        let mut contents: Vec<String> = vec![];
        for k in kinds_with_number(num) {
            let kk = m1::kind(k).unwrap();
            for (_, inst) in (kk.insts)() {
                contents.push(inst.clone());
                // single deviations that are still valid for at least one option of the number
                let muts = if ctx.thorough { super::c05::boundary_mutations(&inst) } else { super::c05::boundary_mutations(&inst).into_iter().step_by(5).collect() };
                for m in muts {
                    if !m.is_ascii() { continue; }
                    if kinds_with_number(num).iter().any(|k2| matches!((m1::kind(k2).unwrap().rec)(&m), V::Accept(_))) { contents.push(m); }
                }
            }
        }
        contents.sort(); contents.dedup();
        for c in contents { for li in 0..letters.len() { jobs.push((fi, li, c.clone())); } }
    }
    let n = jobs.len();
    let accs = par::par_for(n, 2048, mk, |i, a| {
        let (fi, li, c) = &jobs[i];
        let (ty, num, members) = FAMILIES[*fi];
        let letter = &letters[*li];
        let written = format!("{num}{}", letter.clone().unwrap_or_default());
        let in_family = letter.is_some() && members.contains(&written.as_str());
        a.evals += 1;
        with_field!(ty, T => {
            let case = || json!({"family": ty, "letter": letter, "content": c});
            let r = match guarded(|| <T as SwiftField>::parse_with_variant(c, letter.as_deref(), Some(num))) { Ok(r) => r, Err(_) => return };
            match r {
                Ok(v) => {
                    let got = tag_of(&v.to_swift_string());
                    a.buckets.insert(format!("{ty}:{}:ok:{got}", if in_family { written.as_str() } else { "foreign" }));
                    if in_family {
                        if got != written { a.col.add(format!("C14/{ty}/wrong-variant:{written}->{got}"), i as u64, || format!("parse_with_variant(.., {:?}) returned option {got}", letter), case); }
                        else if own_parser_accepts(&written, c) == Some(false) { a.col.add(format!("C14/{ty}/accepted-what-option-rejects:{written}"), i as u64, || format!("{written}'s own parser rejects the content"), case); }
                    } else if letter.is_none() {
                        // "parsed without an option letter": any member whose own parser accepts the content
                        if !members.contains(&got.as_str()) { a.col.add(format!("C14/{ty}/heuristic-unsound:{got}:not-a-member"), i as u64, || format!("parse_with_variant(.., None) returned {got}"), case); }
                        else if own_parser_accepts(&got, c) == Some(false) { a.col.add(format!("C14/{ty}/heuristic-unsound:{got}"), i as u64, || format!("parse_with_variant(.., None) returned option {got} whose own parser rejects the content"), case); }
                    } else {
                        let class = match letter { None => "none".to_string(), Some(l) => if m1::kind(&format!("{num}{l}")).is_some() { "letter-of-another-family".to_string() } else { "unused-letter".to_string() } };
                        a.col.add(format!("C14/{ty}/foreign-letter-accepted:{class}"), i as u64, || format!("letter {:?} is not an option of {ty}; got option {got}", letter), case);
                    }
                }
                Err(_) => {
                    a.buckets.insert(format!("{ty}:{}:err", if in_family { written.as_str() } else { "foreign" }));
                    if in_family && own_parser_accepts(&written, c) == Some(true) && ty != "Field25AccountIdentification" {
                        a.col.add(format!("C14/{ty}/rejected-what-option-accepts:{written}"), i as u64, || format!("{written}'s own parser accepts the content"), case);
                    }
                }
            }
            // letter-less parse (once per content: when li == 0)
            if *li == 0 {
                if let Ok(Ok(v)) = guarded(|| <T as SwiftField>::parse(c)) {
                    let s = v.to_swift_string(); let got = tag_of(&s);
                    if !members.contains(&got.as_str()) { a.col.add(format!("C14/{ty}/heuristic-unsound:{got}:not-a-member"), i as u64, || format!("letter-less parse returned {got}"), case); }
                    else if own_parser_accepts(&got, c) == Some(false) { a.col.add(format!("C14/{ty}/heuristic-unsound:{got}"), i as u64, || format!("letter-less parse returned option {got} whose own parser rejects the content"), case); }
                    else {
                        let l = got[num.len()..].to_string();
                        let body = body_of(&s);
                        match guarded(|| <T as SwiftField>::parse_with_variant(&body, if l.is_empty() { None } else { Some(l.as_str()) }, Some(num))) {
                            Ok(Ok(v2)) => if format!("{:?}", v2) != format!("{:?}", v) { a.col.add(format!("C14/{ty}/heuristic-roundtrip:{got}"), i as u64, || format!("{:?} vs {:?}", v, v2), case); },
                            Ok(Err(e)) => a.col.add(format!("C14/{ty}/heuristic-roundtrip:{got}"), i as u64, || format!("own output with its letter rejected: {e}"), case),
                            Err(_) => {}
                        }
                    }
                }
            }
        }, else => {});
    });
    let mut col = Collector::new(); let mut evals = 0u64; let mut buckets = std::collections::HashSet::new();
    for a in accs { col.merge(a.col); evals += a.evals; buckets.extend(a.buckets); }
    // ---------- message level: every family position x every letter
    let mut mjobs: Vec<(Msg, usize, Option<char>, usize)> = vec![]; // (base, position, letter, instance index of the written option)
    for mt in crate::common::reg::MT_CODES {
        let (msgs, _) = corpus(mt, 1, 3000);
        let Some(base) = msgs.into_iter().filter(|m| m.base == "max" && m.deviations == 0).find(|m| matches!(super::c03::eval(m), super::c03::Outcome::Ok)) else { continue };
        for (p, o) in base.occs.iter().enumerate() {
            let num = &o.tag[..2];
            if kinds_with_number(num).len() < 2 { continue; }
            let n_inst = |w: &str| m1::kind(w).map(|k| (k.insts)().len()).unwrap_or(1);
            for k in 0..n_inst(num) { mjobs.push((base.clone(), p, None, k)); }
            for l in 'A'..='Z' { for k in 0..n_inst(&format!("{num}{l}")) { mjobs.push((base.clone(), p, Some(l), k)); } }
        }
    }
    let mn = mjobs.len();
    let maccs = par::par_for(mn, 64, mk, |i, a| {
        let (base, p, letter, inst_k) = &mjobs[i];
        let o = &base.occs[*p];
        let num = &o.tag[..2];
        let written = format!("{num}{}", letter.map(|c| c.to_string()).unwrap_or_default());
        // content: a typical instance of the written option if the model knows it, else the original content
        let content = m1::kind(&written).map(|k| { let v = (k.insts)(); v[(*inst_k).min(v.len() - 1)].1.clone() }).unwrap_or_else(|| o.content.clone());
        let mut toks = base.toks(); toks[*p] = Tok { tag: written.clone(), content };
        let tags: Vec<String> = toks.iter().map(|t| t.tag.clone()).collect();
        let allowed = m2::accepts_tags(m2::layout(base.mt), &tags);
        a.evals += 1;
        let full = spec::envelope(base.mt, &tok::render_lf(&toks));
        let case = || json!({"mt": base.mt, "position": o.tag, "written": written, "block4": tok::render_lf(&toks)});
        with_mt!(base.mt, T => {
            match guarded(|| SwiftParser::parse::<T>(&full).map(|m| swift_mt_message::SwiftMessageBody::to_mt_string(&m.fields))) {
                Ok(Ok(out)) => {
                    let otoks = tok::tokenise(&out);
                    a.buckets.insert(format!("{}:{}:{}:accepted", base.mt, o.tag, if allowed { "allowed" } else { "foreign" }));
                    let emitted = otoks.get(*p).map(|t| t.tag.clone()).unwrap_or_default();
                    if emitted != written { a.col.add(format!("C14/MT{}/retagged:{written}->{emitted}", base.mt), i as u64, || format!("written :{written}:, emitted :{emitted}:"), case); }
                    else if !allowed { a.col.add(format!("C14/MT{}/foreign-letter-accepted@{}:{}", base.mt, num, if m1::kind(&written).is_some() { "letter-of-another-family" } else { "unused-letter" }), i as u64, || format!(":{written}: is not allowed at this position of MT{}", base.mt), case); }
                }
                Ok(Err(e)) => {
                    a.buckets.insert(format!("{}:{}:{}:rejected", base.mt, o.tag, if allowed { "allowed" } else { "foreign" }));
                    // an option the layout allows, written with a typical content of that option, must be parsed as that option
                    if allowed && m1::kind(&written).is_some() && own_parser_accepts(&written, &toks[*p].content) == Some(true) { a.col.add(format!("C14/MT{}/allowed-option-rejected:{written}", base.mt), i as u64, || format!(":{written}: is an option of this position but the message is rejected: {e}"), case); }
                }
                Err(_) => {}
            }
        }, else => {});
    });
    for a in maccs { col.merge(a.col); evals += a.evals; buckets.extend(a.buckets); }
    ev.set("evaluations", json!(evals)); ev.set("field_level_cases", json!(n)); ev.set("message_level_cases", json!(mn));
    ev.set("distinct_nontrivial", json!(buckets.len()));
    ev.set("rule", json!("field level: 25 enum families x {no letter, A..Z} x every content that is a valid instance of any option carrying the family's field number (boundary instances and their single deviations that some option still accepts): parse_with_variant must return exactly the written option, and only if that option's own parser accepts; a letter outside the family must not yield another variant; letter-less parse must return an option whose own parser accepts and that re-parses to the same value with its letter. message level: every position of a multi-option field in the maximal message of each type x {no letter, A..Z}: accepted => emitted tag = written tag, and the letter is one the layout allows. distinct = (family or position, letter class, outcome)"));
    ev.set("samples", json!([{"family": "Field59", "letter": "A", "content": "/12345678\nDEUTDEFF"}, {"family": "Field50OrderingCustomerAFK", "letter": "K", "content": "12345678\nDEUTDEFF"}, {"mt": "103", "position": "52A", "written": "52B"}]));
    ev.set("exhaustive", json!(false));
    ev.assume("an option's own struct parser is the judge of whether a content is valid for that option");
    super::finish(ev, &col)
}

pub fn replay(v: &Value) -> i32 {
    let c = &v["case"];
    if let Some(fam) = c.get("family").and_then(|x| x.as_str()) {
        let letter = c["letter"].as_str(); let content = c["content"].as_str().unwrap_or("");
        let num = FAMILIES.iter().find(|f| f.0 == fam).map(|f| f.1).unwrap_or("");
        let o = |_: ()| with_field!(fam, T => format!("{:?}", guarded(|| <T as SwiftField>::parse_with_variant(content, letter, Some(num)).map(|f| f.to_swift_string()).map_err(|e| e.to_string()))), else => "unknown".to_string());
        let (a, b) = (o(()), o(()));
        if a != b { eprintln!("MACHINERY: replay diverged"); return 2; }
        println!("{fam}::parse_with_variant({content:?}, {letter:?}) -> {a}\nrecorded: {}", v["what"]);
        0
    } else { super::c01::replay(v) }
}
