//! C04 — network validation reports exactly the documented rule violations (and C13 — the
//! validation entry points are coherent, order-stable and side-effect free — on the same states).
//!
//! E-product over the rule-relevant abstraction of each type: a valuation chooses one option per
//! *dimension* (presence of a field per sequence, code values, equal/different currencies,
//! matching/non-matching sums, repetition counts around the limit). Explored: the full product of
//! every rule cluster (other dimensions at their base value) + every pair of deviations. Each
//! valuation is concretised as MT text (parsed by the library) and, where the text parser cannot
//! reach the state (zero amounts, > 10 sequences, copied fields), as patched JSON.
use crate::common::{ev::Evidence, findings::Collector, guard::{guarded, short_loc}, par, plugins, tok};
use crate::spec::{self, corpus::corpus, m1, m2::{self, Cont, JsonAt, Msg, Node, Occ}, m3::{self, FV, View}};
use crate::{with_mt, Ctx};
use serde_json::{json, Value};
use std::collections::BTreeSet;
use swift_mt_message::{SwiftMessage, SwiftMessageBody, SwiftParser};

#[derive(Clone, Copy, Debug, PartialEq)]
pub enum K { A, B, C, Obj }
#[derive(Clone, Debug)]
pub struct ElInfo { pub id: usize, pub kind: K, pub tags: Vec<(String, String)>, pub repeatable: bool, pub json: JsonAt, pub mand: bool }

pub fn el_infos(mt: &str) -> Vec<ElInfo> {
    let l = m2::layout(mt);
    let mut v = vec![]; let mut id = 0; let mut seen_seq = false;
    for n in &l.nodes {
        match n {
            Node::F(e) => { v.push(ElInfo { id, kind: if seen_seq { K::C } else { K::A }, tags: e.alts.iter().map(|a| (a.tag.clone(), a.kind.clone())).collect(), repeatable: e.max > 1, json: e.json.clone(), mand: e.mand }); id += 1; }
            Node::S(s) => {
                let kind = if s.flat { K::C } else if s.array { K::B } else { K::Obj };
                if !s.flat { seen_seq = true; }
                for e in &s.els { if let Node::F(e) = e { v.push(ElInfo { id, kind, tags: e.alts.iter().map(|a| (a.tag.clone(), a.kind.clone())).collect(), repeatable: e.max > 1, json: e.json.clone(), mand: e.mand }); id += 1; } }
                if s.flat { seen_seq = true; }
            }
        }
    }
    v
}
fn find_el<'a>(infos: &'a [ElInfo], kind: K, tag: &str) -> &'a ElInfo {
    infos.iter().find(|i| i.kind == kind && i.tags.iter().any(|(t, _)| t == tag)).unwrap_or_else(|| panic!("no element {tag} in {kind:?}"))
}

fn order_key(o: &Occ, first_seq_id: usize, last_seq_id: usize) -> (u8, usize, usize) {
    match &o.cont { Cont::Root => if o.el_id < first_seq_id { (0, 0, o.el_id) } else if o.el_id > last_seq_id { (2, 0, o.el_id) } else { (0, 0, o.el_id) }, Cont::SeqItem(i) => (1, *i, o.el_id), Cont::SeqObj => (1, 0, o.el_id) }
}

/// one edit: set element (`kind`, tag) in sequence occurrence `seq` (B only) to the given list of (tag, content)
#[derive(Clone, Debug)]
pub struct Edit { pub kind: K, pub seq: usize, pub tag: String, pub items: Vec<(String, String)> }
#[derive(Clone, Debug)]
pub struct Dim { pub name: String, pub options: Vec<(String, Vec<Edit>)> }

pub fn apply(mt: &str, base: &Msg, infos: &[ElInfo], edits: &[Edit]) -> Msg {
    let mut m = base.clone();
    let seq_ids: Vec<usize> = infos.iter().filter(|i| i.kind == K::B || i.kind == K::Obj).map(|i| i.id).collect();
    let (first, last) = (seq_ids.first().copied().unwrap_or(usize::MAX), seq_ids.last().copied().unwrap_or(usize::MAX));
    for e in edits {
        let info = find_el(infos, e.kind, &e.tag);
        let cont = match e.kind { K::A | K::C => Cont::Root, K::B => Cont::SeqItem(e.seq), K::Obj => Cont::SeqObj };
        m.occs.retain(|o| !(o.el_id == info.id && o.cont == cont));
        for (tag, content) in &e.items {
            let kind = info.tags.iter().find(|(t, _)| t == tag).map(|(_, k)| k.clone()).unwrap_or_else(|| tag.clone());
            let occ = Occ { tag: tag.clone(), kind, content: content.clone(), cont: cont.clone(), json: info.json.clone(), el_id: info.id, repeatable: info.repeatable, mand: info.mand, doc_mand: info.mand, inst_class: "rule" };
            let key = order_key(&occ, first, last);
            let pos = m.occs.iter().position(|o| order_key(o, first, last) > key).unwrap_or(m.occs.len());
            m.occs.insert(pos, occ);
        }
        if e.kind == K::Obj && !e.items.is_empty() { m.seq_count = Some(1); }
    }
    let _ = mt;
    m
}

/// minimal base message with `n` occurrences of the repeating sequence
pub fn base_with_seqs(mt: &str, n: usize) -> Option<Msg> {
    let (msgs, _) = corpus(mt, 0, 10);
    let mut b = msgs.into_iter().find(|m| m.base == "min")?;
    if let Some(cnt) = b.seq_count {
        if b.seq_array && cnt >= 1 && n != cnt {
            let item: Vec<Occ> = b.occs.iter().filter(|o| o.cont == Cont::SeqItem(0)).cloned().collect();
            let last_pos = b.occs.iter().rposition(|o| matches!(o.cont, Cont::SeqItem(_))).unwrap();
            b.occs.retain(|o| !matches!(o.cont, Cont::SeqItem(i) if i >= n));
            let mut insert_at = if n < cnt { 0 } else { last_pos + 1 };
            for k in cnt..n { for o in &item { let mut o2 = o.clone(); o2.cont = Cont::SeqItem(k); b.occs.insert(insert_at, o2); insert_at += 1; } }
            b.seq_count = Some(n);
        }
    }
    Some(b)
}

pub fn view_of(m: &Msg) -> View {
    let mut v = View::default();
    let nseq = m.occs.iter().filter_map(|o| if let Cont::SeqItem(i) = o.cont { Some(i + 1) } else { None }).max().unwrap_or(0);
    v.seqs = vec![vec![]; nseq];
    for o in &m.occs {
        let comps = m1::components(&o.kind, &o.content).unwrap_or_default().into_iter().map(|(n, c)| (n.to_string(), c)).collect();
        let fv = FV { tag: o.tag.clone(), comps };
        match &o.cont { Cont::Root => v.root.push(fv), Cont::SeqItem(i) => v.seqs[*i].push(fv), Cont::SeqObj => v.seq_obj.get_or_insert_with(Vec::new).push(fv) }
    }
    v
}

// ------------------------------------------------------------------ dimensions per type

fn inst(kind: &str) -> String { (m1::kind(kind).unwrap().insts)()[0].1.clone() }
fn opt_presence(name: &str, kind: K, seq: usize, key: &str, alts: &[&str]) -> Dim {
    let mut options = vec![("absent".to_string(), vec![Edit { kind, seq, tag: key.to_string(), items: vec![] }])];
    for a in alts { options.push((a.to_string(), vec![Edit { kind, seq, tag: key.to_string(), items: vec![(a.to_string(), inst(a))] }])); }
    Dim { name: name.to_string(), options }
}
fn content_dim(name: &str, kind: K, seq: usize, tag: &str, contents: &[(&str, Option<&str>)]) -> Dim {
    Dim { name: name.to_string(), options: contents.iter().map(|(label, c)| (label.to_string(), vec![Edit { kind, seq, tag: tag.to_string(), items: c.map(|c| vec![(tag.to_string(), c.to_string())]).unwrap_or_default() }])).collect() }
}
fn list_dim(name: &str, kind: K, seq: usize, tag: &str, lists: Vec<(String, Vec<String>)>) -> Dim {
    Dim { name: name.to_string(), options: lists.into_iter().map(|(label, l)| (label, vec![Edit { kind, seq, tag: tag.to_string(), items: l.into_iter().map(|c| (tag.to_string(), c)).collect() }])).collect() }
}
fn code_lists(codes: &[&str], info_ok: &str, info_bad: &str, pairs: bool) -> Vec<(String, Vec<String>)> {
    let mut v = vec![("none".to_string(), vec![])];
    for c in codes { v.push((c.to_string(), vec![c.to_string()])); }
    v.push((format!("{info_ok}/info"), vec![format!("{info_ok}/INFO")])); v.push((format!("{info_bad}/info"), vec![format!("{info_bad}/INFO")]));
    v.push(("ZZZZ".into(), vec!["ZZZZ".into()]));
    if pairs {
        for a in codes { for b in codes { v.push((format!("{a}+{b}"), vec![a.to_string(), b.to_string()])); } }
        // several repeated codes at once (the order of several errors of the same rule must be stable)
        for (i, a) in codes.iter().enumerate().take(4) { for b in codes.iter().skip(i + 1).take(3) {
            v.push((format!("{a}+{a}+{b}+{b}"), vec![a.to_string(), a.to_string(), b.to_string(), b.to_string()]));
            v.push((format!("{a}+{b}+{a}+{b}"), vec![a.to_string(), b.to_string(), a.to_string(), b.to_string()]));
            v.push((format!("{a}+{b}+{b}"), vec![a.to_string(), b.to_string(), b.to_string()]));
        } }
        if codes.len() >= 3 { v.push(("three-repeated".into(), vec![codes[0].to_string(), codes[0].to_string(), codes[1].to_string(), codes[1].to_string(), codes[2].to_string(), codes[2].to_string()])); }
    }
    v
}

pub struct Plan { pub mt: &'static str, pub nseq: usize, pub dims: Vec<Dim>, pub clusters: Vec<Vec<&'static str>> }

fn plans(thorough: bool) -> Vec<Plan> {
    let mut p = vec![];
    // ---- MT103
    {
        let codes = ["CHQB", "CORT", "HOLD", "INTC", "PHOB", "PHOI", "PHON", "REPA", "SDVA", "TELB", "TELE", "TELI"];
        let dims = vec![
            content_dim("23B", K::A, 0, "23B", &[("CRED", Some("CRED")), ("CRTS", Some("CRTS")), ("SPAY", Some("SPAY")), ("SPRI", Some("SPRI")), ("SSTD", Some("SSTD")), ("URGP", Some("URGP"))]),
            list_dim("23E", K::A, 0, "23E", code_lists(&codes, "HOLD", "SDVA", true)),
            content_dim("33B", K::A, 0, "33B", &[("absent", None), ("same", Some("USD900,00")), ("other", Some("EUR900,00"))]),
            opt_presence("36", K::A, 0, "36", &["36"]),
            opt_presence("53a", K::A, 0, "53A", &["53A"]), opt_presence("54a", K::A, 0, "54A", &["54A"]), opt_presence("55a", K::A, 0, "55A", &["55A"]),
            opt_presence("56a", K::A, 0, "56A", &["56A", "56C", "56D"]), opt_presence("57a", K::A, 0, "57A", &["57A"]),
            Dim { name: "59".into(), options: vec![("59+acct".into(), vec![Edit { kind: K::A, seq: 0, tag: "59".into(), items: vec![("59".into(), "/12345678\nJOHN SMITH".into())] }]), ("59".into(), vec![Edit { kind: K::A, seq: 0, tag: "59".into(), items: vec![("59".into(), "JOHN SMITH".into())] }]), ("59A+acct".into(), vec![Edit { kind: K::A, seq: 0, tag: "59".into(), items: vec![("59A".into(), "/12345678\nDEUTDEFF".into())] }]), ("59A".into(), vec![Edit { kind: K::A, seq: 0, tag: "59".into(), items: vec![("59A".into(), "DEUTDEFF".into())] }]), ("59F+party".into(), vec![Edit { kind: K::A, seq: 0, tag: "59".into(), items: vec![("59F".into(), "/12345678\n1/JOHN SMITH".into())] }]), ("59F".into(), vec![Edit { kind: K::A, seq: 0, tag: "59".into(), items: vec![("59F".into(), "1/JOHN SMITH".into())] }])] },
            content_dim("71A", K::A, 0, "71A", &[("SHA", Some("SHA")), ("OUR", Some("OUR")), ("BEN", Some("BEN"))]),
            list_dim("71F", K::A, 0, "71F", vec![("0".into(), vec![]), ("1".into(), vec!["USD5,00".into()]), ("2".into(), vec!["USD5,00".into(), "EUR1,00".into()])]),
            content_dim("71G", K::A, 0, "71G", &[("absent", None), ("same", Some("USD7,00")), ("other", Some("EUR7,00"))]),
        ];
        p.push(Plan { mt: "103", nseq: 0, dims, clusters: vec![vec!["23B", "23E", "56a", "57a", "59"], vec!["33B", "36", "71A", "71F", "71G"], vec!["53a", "54a", "55a", "56a", "57a"]] });
    }
    // ---- MT101 (two transactions)
    {
        let codes = ["CHQB", "CMSW", "CMTO", "CMZB", "CORT", "EQUI", "INTC", "NETS", "OTHR", "PHON", "REPA", "RTGS", "URGP"];
        let mut dims = vec![opt_presence("A.21R", K::A, 0, "21R", &["21R"]), opt_presence("A.50CL", K::A, 0, "50C", &["50C", "50L"]), opt_presence("A.50FGH", K::A, 0, "50F", &["50F", "50G", "50H"]), opt_presence("A.52a", K::A, 0, "52A", &["52A", "52C"])];
        let mut per_tx = vec![]; let mut c_oc = vec!["A.50FGH"]; let mut c_ip = vec!["A.50CL"]; let mut c_52 = vec!["A.52a"]; let mut c_ccy = vec!["A.21R"];
        for k in 0..2usize {
            let n = |s: &str| -> &'static str { Box::leak(format!("B{k}.{s}").into_boxed_str()) };
            dims.push(opt_presence(n("50FGH"), K::B, k, "50F", &["50F"])); c_oc.push(n("50FGH"));
            dims.push(opt_presence(n("50CL"), K::B, k, "50C", &["50L"])); c_ip.push(n("50CL"));
            dims.push(opt_presence(n("52a"), K::B, k, "52A", &["52A"])); c_52.push(n("52a"));
            dims.push(content_dim(n("32B"), K::B, k, "32B", &[("EUR", Some("EUR500,00")), ("USD", Some("USD500,00"))])); c_ccy.push(n("32B"));
            dims.push(opt_presence(n("21F"), K::B, k, "21F", &["21F"]));
            dims.push(content_dim(n("33B"), K::B, k, "33B", &[("absent", None), ("same", Some("EUR450,00")), ("other", Some("USD450,00"))]));
            dims.push(opt_presence(n("36"), K::B, k, "36", &["36"]));
            dims.push(list_dim(n("23E"), K::B, k, "23E", code_lists(&codes, "OTHR", "CHQB", k == 0)));
            dims.push(opt_presence(n("56a"), K::B, k, "56A", &["56A"])); dims.push(opt_presence(n("57a"), K::B, k, "57A", &["57A"]));
            per_tx.push(vec![n("21F"), n("33B"), n("36"), n("32B")]); per_tx.push(vec![n("23E"), n("33B"), n("21F")]); per_tx.push(vec![n("56a"), n("57a")]);
        }
        let mut clusters = vec![c_oc, c_ip, c_52, c_ccy]; clusters.extend(per_tx);
        p.push(Plan { mt: "101", nseq: 2, dims, clusters });
    }
    // ---- MT104 / MT107 (two transactions + settlement sequence)
    for mt in ["104", "107"] {
        let is104 = mt == "104";
        let a_codes: Vec<(&str, Option<&str>)> = if is104 { vec![("absent", None), ("AUTH", Some("AUTH")), ("NAUT", Some("NAUT")), ("OTHR", Some("OTHR")), ("OTHR/info", Some("OTHR/INFO")), ("RFDD", Some("RFDD")), ("RTND", Some("RTND")), ("AUTH/info", Some("AUTH/INFO")), ("ZZZZ", Some("ZZZZ"))] } else { vec![("absent", None), ("AUTH", Some("AUTH")), ("OTHR/info", Some("OTHR/INFO")), ("RTND", Some("RTND")), ("NAUT/info", Some("NAUT/INFO")), ("ZZZZ", Some("ZZZZ"))] };
        let mut dims = vec![content_dim("A.23E", K::A, 0, "23E", &a_codes), opt_presence("A.21E", K::A, 0, "21E", &["21E"]), opt_presence("A.50CL", K::A, 0, "50C", &["50C"]), opt_presence("A.50AK", K::A, 0, "50A", &["50K"]), opt_presence("A.52a", K::A, 0, "52A", &["52A"]), opt_presence("A.26T", K::A, 0, "26T", &["26T"]), opt_presence("A.77B", K::A, 0, "77B", &["77B"]), opt_presence("A.71A", K::A, 0, "71A", &["71A"]), opt_presence("A.72", K::A, 0, "72", &["72"])];
        if is104 { dims.push(opt_presence("A.21R", K::A, 0, "21R", &["21R"])); }
        let mut dims_tail: Vec<Dim> = vec![];
        dims.push(content_dim("C.19", K::C, 0, "19", &[("absent", None), ("sum", Some("1000,00")), ("other", Some("999,00")), ("one-cent-off", Some("1000,01"))]));
        dims.push(content_dim("C.71F", K::C, 0, "71F", &[("absent", None), ("EUR", Some("EUR5,00")), ("USD", Some("USD5,00"))]));
        dims.push(content_dim("C.71G", K::C, 0, "71G", &[("absent", None), ("EUR", Some("EUR5,00")), ("USD", Some("USD5,00"))]));
        // sequence C as a whole: its 32B opens it; "absent" removes every field of C (a lone 71F/71G/19 would be read as part of the last transaction)
        let mut c32 = content_dim("C.32B", K::C, 0, "32B", &[("sum", Some("EUR1000,00")), ("other-amount", Some("EUR1100,00")), ("other-ccy", Some("USD1000,00")), ("one-cent-off", Some("EUR999,99"))]);
        if is104 { c32.options.push(("absent".into(), ["32B", "19", "71F", "71G"].iter().map(|t| Edit { kind: K::C, seq: 0, tag: t.to_string(), items: vec![] }).collect())); }
        dims_tail.push(c32);
        let mut clusters: Vec<Vec<&'static str>> = vec![];
        let (mut c23, mut cak, mut ccl, mut c21e, mut c52, mut c26, mut c77, mut c71a, mut cf, mut cg, mut camt) = (vec!["A.23E", "A.72"], vec!["A.50AK", "A.21E"], vec!["A.50CL"], vec!["A.21E"], vec!["A.52a"], vec!["A.26T"], vec!["A.77B"], vec!["A.71A"], vec!["C.71F", "C.19", "C.32B"], vec!["C.71G", "C.19", "C.32B"], vec!["C.32B", "C.19"]);
        for k in 0..2usize {
            let n = |s: &str| -> &'static str { Box::leak(format!("B{k}.{s}").into_boxed_str()) };
            dims.push(content_dim(n("23E"), K::B, k, "23E", &[("absent", None), ("AUTH", Some("AUTH")), ("OTHR/info", Some("OTHR/INFO")), ("NAUT/info", Some("NAUT/INFO")), ("RTND", Some("RTND"))])); c23.push(n("23E"));
            dims.push(opt_presence(n("21E"), K::B, k, "21E", &["21E"])); c21e.push(n("21E")); cak.push(n("21E"));
            dims.push(opt_presence(n("50CL"), K::B, k, "50C", &["50L"])); ccl.push(n("50CL"));
            dims.push(opt_presence(n("50AK"), K::B, k, "50A", &["50A"])); cak.push(n("50AK"));
            dims.push(opt_presence(n("52a"), K::B, k, "52A", &["52A"])); c52.push(n("52a"));
            dims.push(opt_presence(n("26T"), K::B, k, "26T", &["26T"])); c26.push(n("26T"));
            dims.push(opt_presence(n("77B"), K::B, k, "77B", &["77B"])); c77.push(n("77B"));
            dims.push(opt_presence(n("71A"), K::B, k, "71A", &["71A"])); c71a.push(n("71A"));
            dims.push(content_dim(n("32B"), K::B, k, "32B", &[("EUR500", Some("EUR500,00")), ("EUR600", Some("EUR600,00")), ("USD500", Some("USD500,00"))])); camt.push(n("32B"));
            dims.push(content_dim(n("33B"), K::B, k, "33B", &[("absent", None), ("same-ccy-same-amt", Some("EUR500,00")), ("same-ccy-other-amt", Some("EUR450,00")), ("other-ccy", Some("USD500,00"))]));
            dims.push(opt_presence(n("36"), K::B, k, "36", &["36"]));
            dims.push(content_dim(n("71F"), K::B, k, "71F", &[("absent", None), ("EUR", Some("EUR5,00")), ("USD", Some("USD5,00"))])); cf.push(n("71F"));
            dims.push(content_dim(n("71G"), K::B, k, "71G", &[("absent", None), ("EUR", Some("EUR5,00")), ("USD", Some("USD5,00"))])); cg.push(n("71G"));
            clusters.push(vec![n("33B"), n("36"), n("32B")]);
        }
        if is104 { let mut rfdd = vec!["A.23E", "A.21R", "C.32B"]; rfdd.extend(["B0.21E", "B0.50AK", "B0.52a", "B0.71F", "B0.71G", "B0.23E"]); clusters.push(rfdd); }
        clusters.extend([c23, cak, ccl, c21e, c52, c26, c77, c71a, cf, cg, camt]);
        dims.extend(dims_tail);
        p.push(Plan { mt, nseq: 2, dims, clusters });
    }
    // ---- MT110 / 204 / 210 : currency consistency, counts, sums, exclusivity
    p.push(Plan { mt: "110", nseq: 3, dims: (0..3).map(|k| Dim { name: format!("B{k}.32"), options: vec![("32A-USD".into(), vec![Edit { kind: K::B, seq: k, tag: "32A".into(), items: vec![("32A".into(), "240719USD100,00".into())] }]), ("32B-USD".into(), vec![Edit { kind: K::B, seq: k, tag: "32A".into(), items: vec![("32B".into(), "USD100,00".into())] }]), ("32A-EUR".into(), vec![Edit { kind: K::B, seq: k, tag: "32A".into(), items: vec![("32A".into(), "240719EUR100,00".into())] }])] }).collect(), clusters: vec![vec!["B0.32", "B1.32", "B2.32"]] });
    {
        // whole amounts and cent amounts whose binary sums are inexact (1,15 + 2,30; 19,99 + 0,01; 0,57 + 0,58)
        let mut dims = vec![content_dim("19", K::A, 0, "19", &[("sum", Some("300,00")), ("other", Some("299,00")), ("sum2", Some("400,00")), ("203,45", Some("203,45")), ("120,00", Some("120,00")), ("101,15", Some("101,15")), ("101,16", Some("101,16")), ("110,001", Some("110,001")), ("110,004", Some("110,004"))])];
        let cents: [&[(&str, Option<&str>)]; 3] = [
            &[("USD100", Some("USD100,00")), ("USD200", Some("USD200,00")), ("EUR100", Some("EUR100,00")), ("USD1,15", Some("USD1,15")), ("USD19,99", Some("USD19,99")), ("USD0,57", Some("USD0,57")), ("KWD5,000", Some("KWD5,000"))],
            &[("USD100", Some("USD100,00")), ("USD200", Some("USD200,00")), ("EUR100", Some("EUR100,00")), ("USD2,30", Some("USD2,30")), ("USD0,01", Some("USD0,01")), ("USD0,58", Some("USD0,58")), ("KWD5,001", Some("KWD5,001"))],
            &[("USD100", Some("USD100,00")), ("USD200", Some("USD200,00")), ("EUR100", Some("EUR100,00"))],
        ];
        for k in 0..3usize { dims.push(content_dim(Box::leak(format!("B{k}.32B").into_boxed_str()), K::B, k, "32B", cents[k])); }
        p.push(Plan { mt: "204", nseq: 3, dims, clusters: vec![vec!["19", "B0.32B", "B1.32B", "B2.32B"]] });
    }
    {
        let mut dims = vec![]; let mut cl = vec![];
        for k in 0..2usize { let n = |s: &str| -> &'static str { Box::leak(format!("B{k}.{s}").into_boxed_str()) };
            dims.push(opt_presence(n("50a"), K::B, k, "50", &["50", "50C", "50F"])); dims.push(opt_presence(n("52a"), K::B, k, "52A", &["52A", "52D"])); dims.push(content_dim(n("32B"), K::B, k, "32B", &[("USD", Some("USD100,00")), ("EUR", Some("EUR100,00"))]));
            cl.extend([n("50a"), n("52a"), n("32B")]); }
        p.push(Plan { mt: "210", nseq: 2, dims, clusters: vec![cl] });
    }
    // ---- MT202 / 205 / 200 / 910
    p.push(Plan { mt: "202", nseq: 0, dims: vec![opt_presence("A.56a", K::A, 0, "56A", &["56A", "56C", "56D"]), opt_presence("A.57a", K::A, 0, "57A", &["57A", "57B"]), opt_presence("B.50a", K::Obj, 0, "50A", &["50K"]), opt_presence("B.56a", K::Obj, 0, "56A", &["56A"]), opt_presence("B.57a", K::Obj, 0, "57A", &["57A"]), opt_presence("B.59a", K::Obj, 0, "59", &["59"])], clusters: vec![vec!["A.56a", "A.57a", "B.50a", "B.56a", "B.57a", "B.59a"]] });
    p.push(Plan { mt: "205", nseq: 0, dims: vec![opt_presence("56a", K::A, 0, "56A", &["56A", "56D"]), opt_presence("57a", K::A, 0, "57A", &["57A", "57D"])], clusters: vec![vec!["56a", "57a"]] });
    p.push(Plan { mt: "200", nseq: 0, dims: vec![content_dim("72", K::A, 0, "72", &[("absent", None), ("plain", Some("/INS/BANKDEFF")), ("REJT", Some("/REJT/99\n/AC01/")), ("RETN", Some("/RETN/99\n/AC01/")), ("REJT-line2", Some("/INS/BANKDEFF\n/REJT/99")), ("rejt-lower", Some("/rejt/99"))])], clusters: vec![vec!["72"]] });
    p.push(Plan { mt: "910", nseq: 0, dims: vec![opt_presence("50a", K::A, 0, "50A", &["50A", "50F", "50K"]), opt_presence("52a", K::A, 0, "52A", &["52A", "52D"]), opt_presence("56a", K::A, 0, "56A", &["56A"])], clusters: vec![vec!["50a", "52a", "56a"]] });
    // ---- MT920 / 935
    {
        let mut dims = vec![]; let mut cl = vec![];
        for k in 0..2usize { let n = |s: &str| -> &'static str { Box::leak(format!("B{k}.{s}").into_boxed_str()) };
            dims.push(content_dim(n("12"), K::B, k, "12", &[("940", Some("940")), ("941", Some("941")), ("942", Some("942")), ("950", Some("950")), ("103", Some("103"))]));
            dims.push(list_dim(n("34F"), K::B, k, "34F", vec![("none".into(), vec![]), ("one".into(), vec!["USD5000,00".into()]), ("one-D".into(), vec!["USDD5000,00".into()]), ("D+C".into(), vec!["USDD5000,00".into(), "USDC100,00".into()]), ("C+D".into(), vec!["USDC5000,00".into(), "USDD100,00".into()]), ("D+C-other-ccy".into(), vec!["USDD5000,00".into(), "EURC100,00".into()]), ("plain+plain".into(), vec!["USD5000,00".into(), "USD100,00".into()])]));
            cl.extend([n("12"), n("34F")]); }
        p.push(Plan { mt: "920", nseq: 2, dims, clusters: vec![cl] });
    }
    {
        let mut dims = vec![]; let mut cl = vec![];
        for k in 0..2usize { let n = |s: &str| -> &'static str { Box::leak(format!("B{k}.{s}").into_boxed_str()) };
            dims.push(Dim { name: n("23|25").into(), options: vec![("23".into(), vec![Edit { kind: K::B, seq: k, tag: "23".into(), items: vec![("23".into(), "USDBASE".into())] }]), ("25".into(), vec![Edit { kind: K::B, seq: k, tag: "23".into(), items: vec![("25".into(), "/ACC123".into())] }])] });
            dims.push(list_dim(n("37H"), K::B, k, "37H", vec![("C".into(), vec!["C2,5000".into()]), ("DN".into(), vec!["DN0,2500".into()]), ("N-zero".into(), vec!["CN0,0000".into()]), ("two".into(), vec!["C2,5000".into(), "D1,0000".into()])]));
            cl.extend([n("23|25"), n("37H")]); }
        p.push(Plan { mt: "935", nseq: 2, dims, clusters: vec![cl] });
    }
    // ---- statements: currency prefixes
    p.push(Plan { mt: "940", nseq: 1, dims: vec![content_dim("60F", K::A, 0, "60F", &[("USD", Some("C231225USD1234,56")), ("EUR", Some("C231225EUR1234,56")), ("USN", Some("C231225USN1234,56"))]), content_dim("62F", K::C, 0, "62F", &[("USD", Some("C231225USD1234,56")), ("EUR", Some("C231225EUR1234,56")), ("USN", Some("C231225USN1234,56"))]), content_dim("64", K::C, 0, "64", &[("absent", None), ("USD", Some("C231225USD1,00")), ("EUR", Some("C231225EUR1,00"))]), list_dim("65", K::C, 0, "65", vec![("none".into(), vec![]), ("USD".into(), vec!["C231225USD1,00".into()]), ("USD+EUR".into(), vec!["C231225USD1,00".into(), "C231226EUR2,00".into()])])], clusters: vec![vec!["60F", "62F", "64", "65"]] });
    p.push(Plan { mt: "941", nseq: 0, dims: vec![content_dim("60F", K::A, 0, "60F", &[("absent", None), ("USD", Some("C231225USD1234,56")), ("EUR", Some("C231225EUR1234,56"))]), content_dim("90D", K::A, 0, "90D", &[("absent", None), ("USD", Some("5USD12500,50")), ("EUR", Some("5EUR12500,50"))]), content_dim("90C", K::A, 0, "90C", &[("absent", None), ("USD", Some("5USD12500,50")), ("EUR", Some("5EUR12500,50"))]), content_dim("62F", K::A, 0, "62F", &[("USD", Some("C231225USD1234,56")), ("EUR", Some("C231225EUR1234,56")), ("USN", Some("C231225USN1234,56"))]), content_dim("64", K::A, 0, "64", &[("absent", None), ("USD", Some("C231225USD1,00")), ("EUR", Some("C231225EUR1,00"))]), list_dim("65", K::A, 0, "65", vec![("none".into(), vec![]), ("USD".into(), vec!["C231225USD1,00".into()]), ("USD+EUR".into(), vec!["C231225USD1,00".into(), "C231226EUR2,00".into()])])], clusters: vec![vec!["60F", "90D", "90C", "62F", "64", "65"]] });
    p.push(Plan { mt: "942", nseq: 0, dims: vec![list_dim("34F", K::A, 0, "34F", vec![("one".into(), vec!["USD5000,00".into()]), ("one-D".into(), vec!["USDD5000,00".into()]), ("D+C".into(), vec!["USDD5000,00".into(), "USDC100,00".into()]), ("C+D".into(), vec!["USDC5000,00".into(), "USDD100,00".into()]), ("D+C-EUR".into(), vec!["USDD5000,00".into(), "EURC100,00".into()]), ("plain+C".into(), vec!["USD5000,00".into(), "USDC100,00".into()])]), content_dim("90D", K::C, 0, "90D", &[("absent", None), ("USD", Some("5USD12500,50")), ("EUR", Some("5EUR12500,50"))]), content_dim("90C", K::C, 0, "90C", &[("absent", None), ("USD", Some("5USD12500,50")), ("EUR", Some("5EUR12500,50"))])], clusters: vec![vec!["34F", "90D", "90C"]] });
    p.push(Plan { mt: "950", nseq: 0, dims: vec![Dim { name: "60".into(), options: ["60F", "60M"].iter().flat_map(|t| ["USD", "EUR"].iter().map(move |c| (format!("{t}-{c}"), vec![Edit { kind: K::A, seq: 0, tag: "60F".into(), items: vec![(t.to_string(), format!("C231225{c}1234,56"))] }]))).collect() }, Dim { name: "62".into(), options: ["62F", "62M"].iter().flat_map(|t| ["USD", "EUR", "USN"].iter().map(move |c| (format!("{t}-{c}"), vec![Edit { kind: K::A, seq: 0, tag: "62F".into(), items: vec![(t.to_string(), format!("C231225{c}1234,56"))] }]))).collect() }, content_dim("64", K::A, 0, "64", &[("absent", None), ("USD", Some("C231225USD1,00")), ("EUR", Some("C231225EUR1,00"))])], clusters: vec![vec!["60", "62", "64"]] });
    // ---- n92 / n96
    p.push(Plan { mt: "192", nseq: 0, dims: vec![content_dim("79", K::A, 0, "79", &[("absent", None), ("plain", Some("NARRATIVE")), ("DUPL", Some("/DUPL/DUPLICATE PAYMENT")), ("ZZZZ", Some("/ZZZZ/UNKNOWN CODE")), ("long", Some("/TOOLONG/TEXT"))])], clusters: vec![vec!["79"]] });
    for mt in ["196", "296", "292"] { p.push(Plan { mt, nseq: 0, dims: vec![content_dim("79", K::A, 0, "79", &if mt == "292" { vec![("plain", Some("NARRATIVE"))] } else { vec![("absent", None), ("plain", Some("NARRATIVE"))] })], clusters: vec![vec!["79"]] }); }
    // ---- rule-free types: the layout corpus must validate clean
    for mt in ["111", "112", "190", "191", "199", "290", "291", "299", "900"] { p.push(Plan { mt, nseq: 0, dims: vec![], clusters: vec![] }); }
    let _ = thorough;
    p
}

/// valuations of a plan: full product of each cluster (others at base) + all pairs of deviations
fn valuations(plan: &Plan, triples: bool) -> Vec<Vec<usize>> {
    let nd = plan.dims.len();
    let base = vec![0usize; nd];
    let mut out: BTreeSet<Vec<usize>> = BTreeSet::new();
    out.insert(base.clone());
    for cl in &plan.clusters {
        let idxs: Vec<usize> = cl.iter().filter_map(|n| plan.dims.iter().position(|d| d.name == *n)).collect();
        let total: u64 = idxs.iter().map(|i| plan.dims[*i].options.len() as u64).product();
        if total > 300_000 {
            // too large for a full product: all triples of deviations inside the cluster
            for &a in &idxs { for oa in 0..plan.dims[a].options.len() { for &b in &idxs { if b <= a { continue; } for ob in 0..plan.dims[b].options.len() { let mut v = base.clone(); v[a] = oa; v[b] = ob; out.insert(v.clone()); for &c in &idxs { if c <= b { continue; } for oc in 1..plan.dims[c].options.len().min(6) { let mut w = v.clone(); w[c] = oc; out.insert(w); } } } } } }
            continue;
        }
        let mut cur = vec![base.clone()];
        for &i in &idxs { let mut nxt = Vec::with_capacity(cur.len() * plan.dims[i].options.len()); for v in &cur { for o in 0..plan.dims[i].options.len() { let mut w = v.clone(); w[i] = o; nxt.push(w); } } cur = nxt; }
        out.extend(cur);
    }
    for a in 0..nd { for oa in 1..plan.dims[a].options.len() { for b in (a + 1)..nd { for ob in 1..plan.dims[b].options.len() { let mut v = base.clone(); v[a] = oa; v[b] = ob; out.insert(v); } } } }
    if triples {
        // thorough: every triple of deviations over all dimensions (capped per type, reported)
        let cap = 1_500_000usize;
        'outer: for a in 0..nd { for oa in 1..plan.dims[a].options.len() { for b in (a + 1)..nd { for ob in 1..plan.dims[b].options.len() { for c in (b + 1)..nd { for oc in 1..plan.dims[c].options.len() {
            let mut v = base.clone(); v[a] = oa; v[b] = ob; v[c] = oc; out.insert(v);
            if out.len() >= cap { break 'outer; }
        } } } } } }
    }
    out.into_iter().collect()
}

#[derive(Clone, Copy, PartialEq)]
pub enum Mode { Rules, Coherence }
pub static CALLS: std::sync::atomic::AtomicU64 = std::sync::atomic::AtomicU64::new(0);

fn codes_of(errs: &[swift_mt_message::errors::SwiftValidationError]) -> Vec<String> { errs.iter().map(|e| e.error_code().to_string()).collect() }

/// C04 judgement for one message object
fn judge_rules<T: SwiftMessageBody>(mt: &str, m: &SwiftMessage<T>, view: &View, label: &str, order: u64, case: &dyn Fn() -> Value, col: &mut Collector, outcomes: &mut BTreeSet<String>) {
    let got: BTreeSet<String> = match guarded(|| codes_of(&m.fields.validate_network_rules(false))) { Ok(c) => c.into_iter().collect(), Err(l) => { col.add(format!("C04/MT{mt}/panic/{}", short_loc(&l)), order, || l.clone(), case); return; } };
    let exp = m3::expected(mt, view);
    outcomes.insert(format!("{mt}:{}", got.iter().cloned().collect::<Vec<_>>().join("+")));
    for c in &exp.must { if !exp.unspec.contains(c) && !got.contains(*c) { col.add(format!("C04/MT{mt}/{c}/missing"), order, || format!("{label}: rule {c} is violated but not reported (reported: {:?})", got), case); } }
    for c in &got { if !exp.must.contains(c.as_str()) && !exp.unspec.contains(c.as_str()) { let cls = if m3::known_codes(mt).contains(&c.as_str()) { "spurious" } else { "undocumented-code" }; col.add(format!("C04/MT{mt}/{c}/{cls}"), order, || format!("{label}: {c} reported although the rule is satisfied (expected {:?})", exp.must), case); } }
}

/// C13 judgement for one message object: all call histories of length <= 3 over the five entry points
fn judge_coherence<T: SwiftMessageBody + serde::de::DeserializeOwned>(mt: &str, m: &SwiftMessage<T>, order: u64, case: &dyn Fn() -> Value, col: &mut Collector, outcomes: &mut BTreeSet<String>, histories: bool) {
    let text = match guarded(|| m.to_mt_message()) { Ok(t) => t, Err(_) => return };
    let snapshot = |m: &SwiftMessage<T>| (serde_json::to_string(m).unwrap_or_default(), format!("{:?}", m));
    let before = snapshot(m);
    // the five entry points
    let call = |k: usize| -> Result<(Vec<String>, Option<bool>), String> {
        CALLS.fetch_add(1, std::sync::atomic::Ordering::Relaxed);
        match k {
            0 => guarded(|| (codes_of(&m.fields.validate_network_rules(true)), None)),
            1 => guarded(|| (codes_of(&m.fields.validate_network_rules(false)), None)),
            2 => guarded(|| { let r = m.validate(); (r.errors.iter().map(|e| match e { swift_mt_message::ValidationError::BusinessRuleValidation { rule_name, .. } => rule_name.clone(), o => format!("{o}") }).collect(), Some(r.is_valid)) }),
            3 => guarded(|| match SwiftParser::parse_auto(&text) { Ok(p) => { let r = p.validate(); (r.errors.iter().map(|e| match e { swift_mt_message::ValidationError::BusinessRuleValidation { rule_name, .. } => rule_name.clone(), o => format!("{o}") }).collect(), Some(r.is_valid)) } Err(e) => (vec![format!("unparseable:{e}")], None) }),
            _ => guarded(|| match plugins::validate_mt(&text) { Ok(v) => { let errs: Vec<String> = v["errors"].as_array().map(|a| a.iter().filter_map(|x| x.as_str()).map(|s| s.trim_start_matches('[').split(']').next().unwrap_or("").to_string()).collect()).unwrap_or_default(); (errs, v["valid"].as_bool()) } Err(e) => (vec![format!("plugin-error:{e}")], None) }),
        }
    };
    let names = ["validate_network_rules(true)", "validate_network_rules(false)", "SwiftMessage::validate", "ParsedSwiftMessage::validate", "validate_mt plugin"];
    let first: Vec<_> = (0..5).map(call).collect();
    let Ok((full, _)) = &first[1] else { return };
    let fresh = outcomes.insert(format!("{mt}:{}", full.join("+")));
    // quick tier: call histories on the representatives of each distinct outcome (per worker) and on every 16th state
    let histories = histories && (fresh || order % 16 == 0 || std::env::var("VERIF_TIER_THOROUGH").is_ok());
    if let Ok((stop, _)) = &first[0] {
        if !(stop.len() <= full.len() && full[..stop.len()] == stop[..]) { col.add(format!("C13/MT{mt}/not-prefix/{}", stop.first().cloned().unwrap_or_default()), order, || format!("stop-on-first {:?} is not a prefix of {:?}", stop, full), case); }
        if stop.is_empty() != full.is_empty() { col.add(format!("C13/MT{mt}/empty-mismatch/{}", full.first().cloned().unwrap_or_default()), order, || format!("stop-on-first {:?} vs full {:?}", stop, full), case); }
    }
    // entry points 3 and 4 re-parse the serialised text: only comparable when that text is accepted and means the same message
    let reparsed_same = guarded(|| SwiftParser::parse::<T>(&text).ok().map(|p| serde_json::to_string(&p).unwrap_or_default())).ok().flatten().as_deref() == Some(before.0.as_str());
    for k in 2..5 {
        if k >= 3 && !reparsed_same { continue; }
        if let Ok((errs, valid)) = &first[k] {
            if let Some(v) = valid { if *v != full.is_empty() { col.add(format!("C13/MT{mt}/flag-mismatch:{}/{}", names[k], full.first().cloned().unwrap_or_default()), order, || format!("{} says valid={v}, full list {:?}", names[k], full), case); continue; } }
            if errs != full { col.add(format!("C13/MT{mt}/flag-mismatch:{}/{}", names[k], errs.iter().zip(full.iter()).find(|(a, b)| a != b).map(|(a, _)| a.clone()).or_else(|| errs.get(full.len()).cloned()).or_else(|| full.get(errs.len()).cloned()).unwrap_or_default()), order, || format!("{} reports {:?}, full list {:?}", names[k], errs, full), case); }
        }
    }
    // same errors in the same order on every call, judged on the whole error values (two errors of one
    // rule have the same code, so a swap is invisible in the code lists compared above): every state
    for stop in [false, true] {
        let render = || guarded(|| m.fields.validate_network_rules(stop).iter().map(|e| format!("{e:?}")).collect::<Vec<String>>());
        if let Ok(r0) = render() {
            for _ in 0..3 {
                CALLS.fetch_add(1, std::sync::atomic::Ordering::Relaxed);
                if let Ok(r) = render() { if r != r0 {
                    let code = full.first().cloned().unwrap_or_default();
                    col.add(format!("C13/MT{mt}/unstable-order/{code}"), order, || format!("validate_network_rules({stop}) returned {:?} and then {:?}", r0, r), case); break;
                } }
            }
        }
    }
    if snapshot(m) != before { col.add(format!("C13/MT{mt}/mutated/after-first-calls"), order, || "message changed by validation".into(), case); return; }
    if !histories { return; }
    // all histories of length <= 3: every call returns what the first call of that kind returned, message unchanged
    let kinds: Vec<usize> = if reparsed_same { (0..5).collect() } else { (0..3).collect() };
    let firsts: Vec<Option<(Vec<String>, Option<bool>)>> = first.into_iter().map(|r| r.ok()).collect();
    for &a in &kinds { for &b in &kinds { for &c in &kinds {
        for (step, k) in [a, b, c].iter().enumerate() {
            let r = call(*k).ok();
            if r != firsts[*k] { col.add(format!("C13/MT{mt}/unstable/{}", names[*k]), order, || format!("history {:?}: call {} of {} returned {:?}, first call returned {:?}", [names[a], names[b], names[c]], step + 1, names[*k], r, firsts[*k]), case); return; }
        }
        if snapshot(m) != before { col.add(format!("C13/MT{mt}/mutated/{}", names[c]), order, || format!("message changed after history {:?}", [names[a], names[b], names[c]]), case); return; }
    } } }
}

struct Acc { col: Collector, evals: u64, text_ok: u64, text_rejected: u64, json_states: u64, outcomes: BTreeSet<String>, transitions: u64 }
fn mk() -> Acc { Acc { col: Collector::new(), evals: 0, text_ok: 0, text_rejected: 0, json_states: 0, outcomes: BTreeSet::new(), transitions: 0 } }

pub fn explore(ctx: &Ctx, mode: Mode) -> (Collector, Value, u64, u64, u64, usize, Vec<Value>) {
    let plans = plans(ctx.thorough);
    // jobs: (plan idx, valuation) ; rule-free types: corpus messages
    let mut jobs: Vec<(usize, Vec<usize>)> = vec![];
    let mut per_type = vec![];
    let mut bases: Vec<Option<(Msg, Vec<ElInfo>)>> = vec![];
    let mut free_corpus: Vec<(usize, Msg)> = vec![];
    for (pi, pl) in plans.iter().enumerate() {
        let infos = el_infos(pl.mt);
        let base = base_with_seqs(pl.mt, pl.nseq.max(if m2::layout(pl.mt).nodes.iter().any(|n| matches!(n, Node::S(s) if s.array)) { 1 } else { 0 }));
        if pl.dims.is_empty() {
            let (msgs, _) = corpus(pl.mt, if ctx.thorough { 2 } else { 1 }, 20_000);
            per_type.push(json!({"mt": pl.mt, "valuations": msgs.len(), "kind": "rule-free: layout corpus"}));
            for m in msgs { free_corpus.push((pi, m)); }
        } else {
            let vals = valuations(pl, ctx.thorough && mode == Mode::Rules);
            per_type.push(json!({"mt": pl.mt, "dimensions": pl.dims.len(), "valuations": vals.len(), "clusters": pl.clusters.len()}));
            for v in vals { jobs.push((pi, v)); }
        }
        bases.push(base.map(|b| (b, infos)));
    }
    let n = jobs.len() + free_corpus.len();
    let accs = par::par_for(n, 16, mk, |i, a| {
        let (pi, msg, label, nseq_dims): (usize, Msg, String, usize) = if i < jobs.len() {
            let (pi, val) = &jobs[i];
            let pl = &plans[*pi];
            let Some((base, infos)) = &bases[*pi] else { return };
            let mut edits = vec![]; let mut label = vec![];
            for (d, o) in pl.dims.iter().zip(val) { if *o != 0 { label.push(format!("{}={}", d.name, d.options[*o].0)); } edits.extend(d.options[*o].1.iter().cloned()); }
            (*pi, apply(pl.mt, base, infos, &edits), label.join(","), val.iter().filter(|o| **o != 0).count())
        } else { let (pi, m) = &free_corpus[i - jobs.len()]; (*pi, m.clone(), format!("layout:{}", m.devs.join("+")), 0) };
        let pl = &plans[pi];
        let mt = pl.mt;
        a.transitions += nseq_dims as u64;
        let text = spec::envelope(mt, &msg.text_lf());
        let view = view_of(&msg);
        a.evals += 1;
        with_mt!(mt, T => {
            let parsed = match guarded(|| SwiftParser::parse::<T>(&text)) { Ok(Ok(p)) => p, _ => { a.text_rejected += 1; return; } };
            a.text_ok += 1;
            let case = || json!({"mt": mt, "valuation": label, "message": text});
            match mode {
                Mode::Rules => judge_rules(mt, &parsed, &view, &label, i as u64, &case, &mut a.col, &mut a.outcomes),
                Mode::Coherence => judge_coherence(mt, &parsed, i as u64, &case, &mut a.col, &mut a.outcomes, true),
            }
            // ---- JSON-only neighbour states
            let j = match serde_json::to_value(&parsed) { Ok(j) => j, Err(_) => return };
            let mut variants: Vec<(String, Value, View)> = vec![];
            if mt == "101" { for k in 0..view.seqs.len() { let mut jj = j.clone(); jj["fields"]["#"][k]["32B"]["amount"] = json!(0.0); let mut vv = view.clone(); if let Some(f) = vv.seqs[k].iter_mut().find(|f| f.tag == "32B") { for c in f.comps.iter_mut() { if c.0 == "amount" { c.1 = m1::CV::D("0".into()); } } } variants.push((format!("json:B{k}.32B.amount=0"), jj, vv)); } }
            if ["110", "204", "210", "935"].contains(&mt) && label.is_empty() {
                for target in [10usize, 11] { let mut jj = j.clone(); let mut vv = view.clone(); if let Some(arr) = jj["fields"]["#"].as_array_mut() { if arr.is_empty() { continue; } while arr.len() < target { arr.push(arr[0].clone()); vv.seqs.push(vv.seqs[0].clone()); } } if mt == "204" { let s: i128 = vv.seqs.iter().filter_map(|s| m3::get(s, "32B").and_then(|f| f.d("amount"))).sum(); jj["fields"]["19"]["amount"] = json!((s as f64) / 1e6); for f in vv.root.iter_mut().filter(|f| f.tag == "19") { for c in f.comps.iter_mut() { if c.0 == "amount" { c.1 = m1::CV::D(m1::dec_norm_parts(&(s / 1_000_000).to_string(), &format!("{:06}", s % 1_000_000))); } } } } variants.push((format!("json:sequences={target}"), jj, vv)); }
            }
            if ["292", "296", "192", "196"].contains(&mt) { let mut jj = j.clone(); jj["fields"]["32A"] = json!({"value_date": "2024-07-19", "currency": "USD", "amount": 1.0}); let mut vv = view.clone(); vv.extra_root_keys = mt == "292" || mt == "296"; if mt == "292" || mt == "296" { variants.push(("json:copied-field-32A".into(), jj, vv)); } }
            for (vl, jj, vv) in variants {
                a.json_states += 1;
                if let Ok(Ok(m2)) = guarded(|| serde_json::from_value::<SwiftMessage<T>>(jj.clone())) {
                    let lab = if label.is_empty() { vl.clone() } else { format!("{label},{vl}") };
                    let case2 = || json!({"mt": mt, "valuation": lab, "json": jj});
                    match mode { Mode::Rules => judge_rules(mt, &m2, &vv, &lab, i as u64, &case2, &mut a.col, &mut a.outcomes), Mode::Coherence => judge_coherence(mt, &m2, i as u64, &case2, &mut a.col, &mut a.outcomes, false) }
                }
            }
        }, else => {});
    });
    let mut col = Collector::new(); let (mut evals, mut ok, mut rej, mut js, mut tr) = (0, 0, 0, 0, 0); let mut outcomes = BTreeSet::new();
    for a in accs { col.merge(a.col); evals += a.evals; ok += a.text_ok; rej += a.text_rejected; js += a.json_states; tr += a.transitions; outcomes.extend(a.outcomes); }
    let samples: Vec<Value> = jobs.iter().step_by((jobs.len() / 3).max(1)).take(3).map(|(pi, v)| json!({"mt": plans[*pi].mt, "valuation": plans[*pi].dims.iter().zip(v).filter(|(_, o)| **o != 0).map(|(d, o)| format!("{}={}", d.name, d.options[*o].0)).collect::<Vec<_>>()})).collect();
    (col, json!({"per_type": per_type, "text_accepted": ok, "text_not_accepted": rej, "json_only_states": js}), evals, tr, ok + js, outcomes.len(), samples)
}

pub fn run(ctx: &Ctx) -> i32 {
    let mut ev = Evidence::new("C04", &ctx.tier, "model_checking");
    let (col, detail, evals, transitions, validated, distinct, samples) = explore(ctx, Mode::Rules);
    ev.set("states", json!(evals)); ev.set("transitions", json!(transitions.max(1)));
    ev.set("traces_validated_against_impl", json!(validated)); ev.set("evaluations", json!(evals));
    ev.set("distinct_nontrivial", json!(distinct)); ev.set("detail", detail);
    ev.set("rule", json!("state = one valuation of the rule-relevant abstraction of a type (one option per dimension: presence of each rule-relevant field per sequence for two occurrences, code values incl. every ordered pair of 23E codes, equal/different currencies, matching/non-matching sums, repetition counts 10/11); explored: full product of every rule cluster with the other dimensions at base + every pair of deviations (thorough: + every triple of deviations, capped at 1.5M valuations per type); each state is concretised as MT text (and as patched JSON for zero amounts, 10/11 sequences, copied fields), validated by the library, and compared as a set of error codes with the M3 reference tables; rule-free types: the whole layout corpus must validate clean. transitions = single-dimension changes along the explored valuations; distinct = distinct (type, reported code set)"));
    ev.set("samples", json!(samples)); ev.set("exhaustive", json!(false));
    ev.assume("M3 reference tables transcribed from the rule statements in src/messages/mtNNN.rs doc comments and error texts (SR 2025); sets of codes are compared, not multiplicities; E17 (documented, option restriction) and MT935 T26 are Unspecified");
    super::finish(ev, &col)
}

pub fn replay(v: &Value) -> i32 {
    let c = &v["case"]; let mt = c["mt"].as_str().unwrap_or("");
    let o = |_: ()| -> String { with_mt!(mt, T => {
        if let Some(text) = c.get("message").and_then(|x| x.as_str()) { format!("{:?}", guarded(|| SwiftParser::parse::<T>(text).map(|m| codes_of(&m.fields.validate_network_rules(false))).map_err(|e| e.to_string()))) }
        else { format!("{:?}", guarded(|| serde_json::from_value::<SwiftMessage<T>>(c["json"].clone()).map(|m| codes_of(&m.fields.validate_network_rules(false))).map_err(|e| e.to_string()))) }
    }, else => "?".into()) };
    let (a, b) = (o(()), o(()));
    if a != b { eprintln!("MACHINERY: replay diverged"); return 2; }
    println!("valuation: {}\nreported codes: {a}\nrecorded: {}", c["valuation"], v["what"]);
    let _ = tok::tokenise("");
    0
}
