//! C16 — the field-map tokeniser and sequential consumption lose and reorder nothing.
//! (1) parse_block4_fields vs an independent tokeniser on model messages, their mutants and ALL
//!     texts of <= L pieces over an 8-piece alphabet;
//! (2) stateright exploration of the real FieldConsumptionTracker and
//!     find_field_with_variant_sequential_constrained against a per-tag FIFO reference;
//! (3) split_into_sequences / parse_repetitive_sequence: partition property.
use crate::common::{ev::Evidence, findings::{self, Collector}, guard::guarded, par, tok::{self, Tok}};
use crate::spec::{corpus::corpus, mutate};
use crate::Ctx;
use serde_json::{json, Value};
use stateright::{Checker, Model, Property};
use std::collections::{BTreeSet, HashMap};
use std::hash::{Hash, Hasher};
use std::sync::atomic::{AtomicU64, Ordering};
use std::sync::{Arc, Mutex};
use swift_mt_message::parser::{find_field_with_variant_sequential_constrained, get_sequence_config, parse_block4_fields, parse_repetitive_sequence, split_into_sequences, FieldConsumptionTracker, SequenceConfig};

type FieldMap = HashMap<String, Vec<(String, usize)>>;

/// library result flattened and ordered by position stamp
fn flatten(m: &FieldMap) -> Vec<(String, String, usize)> {
    let mut v: Vec<(String, String, usize)> = m.iter().flat_map(|(k, vs)| vs.iter().map(move |(c, p)| (k.clone(), c.clone(), *p))).collect();
    v.sort_by_key(|x| x.2);
    v
}
fn number_of(tag: &str) -> &str { let n = tag.find(|c: char| !c.is_ascii_digit()).unwrap_or(tag.len()); &tag[..n] }

/// compare with the independent tokeniser; Some((clause, tag))
fn compare(text: &str, lib: &FieldMap) -> Option<(&'static str, String)> {
    let want: Vec<Tok> = tok::tokenise(text);
    let got = flatten(lib);
    // positions strictly increasing and unique
    for w in got.windows(2) { if w[0].2 >= w[1].2 { return Some(("reordered", format!("{}", w[1].0))); } }
    for (k, vs) in lib { for w in vs.windows(2) { if w[0].1 >= w[1].1 { return Some(("reordered", k.clone())); } } }
    let mut i = 0;
    for w in &want {
        match got.get(i) {
            None => return Some(("lost", w.tag.clone())),
            Some((k, c, _)) => {
                let key_ok = *k == w.tag || k.as_str() == number_of(&w.tag);
                if !key_ok { return Some((if got.len() > want.len() { "invented" } else { "lost" }, if got.len() > want.len() { k.clone() } else { w.tag.clone() })); }
                if c.trim().replace("\r\n", "\n") != w.content.trim().replace("\r\n", "\n") { return Some(("content-changed", w.tag.clone())); }
            }
        }
        i += 1;
    }
    if let Some((k, _, _)) = got.get(i) { return Some(("invented", k.clone())); }
    None
}

/// feature class of a small-scope text (keeps finding keys coarse but causal)
fn text_class(text: &str) -> String {
    let mut f = vec![];
    let lines: Vec<&str> = text.split('\n').collect();
    if lines.iter().any(|l| !l.starts_with(':') && l.contains(':') && tok::is_tag_start(&l[l.find(':').unwrap()..]).is_some()) { f.push("marker-mid-line"); }
    if lines.first().map(|l| tok::is_tag_start(l).is_none() && !l.is_empty()).unwrap_or(false) { f.push("text-before-first-field"); }
    if lines.iter().any(|l| l.starts_with(':') && tok::is_tag_start(l).is_none()) { f.push("line-starts-with-lone-colon"); }
    if lines.iter().any(|l| tok::is_tag_start(l).map(|(_, o)| l[o..].contains(':')).unwrap_or(false)) { f.push("colon-in-content"); }
    if lines.iter().any(|l| tok::is_tag_start(l).is_none() && l.contains(':')) { f.push("colon-in-continuation-line"); }
    if text.contains("\n\n") { f.push("empty-line"); }
    if text.contains('-') { f.push("hyphen"); }
    // the primary (first) feature only: keys stay coarse but causal
    f.first().map(|x| x.to_string()).unwrap_or_else(|| "plain".into())
}

// ------------------------------------------------------------------ stateright: tracker

#[derive(Clone, Copy, Debug, PartialEq, Eq, Hash)]
pub enum Op { Next(u8), Take(u8), Find(u8, u8) }
const TAGS: [&str; 8] = ["20", "21", "50A", "50C", "50K", "50L", "59", "59A"];
const BASES: [&str; 4] = ["50", "59", "20", "21"];
const VARIANTS: [Option<&[&str]>; 5] = [None, Some(&["C", "L"]), Some(&["A", "F", "K"]), Some(&["A"]), Some(&["A", "C", "F", "K", "L"])];

fn op_name(o: &Op) -> String { match o { Op::Next(t) => format!("get_next_available({})", TAGS[*t as usize]), Op::Take(t) => format!("get_next_available+mark_consumed({})", TAGS[*t as usize]), Op::Find(b, v) => format!("find_constrained({}, {:?})", BASES[*b as usize], VARIANTS[*v as usize]) } }

#[derive(Clone, Debug)]
pub struct St { map: u32, consumed: BTreeSet<(String, usize)>, depth: u8, real: FieldConsumptionTracker, bad: bool, absorbing: bool }
impl PartialEq for St { fn eq(&self, o: &Self) -> bool { self.map == o.map && self.consumed == o.consumed && self.depth == o.depth && self.absorbing == o.absorbing } }
impl Eq for St {}
impl Hash for St { fn hash<H: Hasher>(&self, h: &mut H) { self.map.hash(h); self.consumed.hash(h); self.depth.hash(h); self.absorbing.hash(h); } }

pub struct TM { maps: Vec<(String, FieldMap)>, max_depth: u8, known: BTreeSet<String>, col: Arc<Mutex<Collector>>, transitions: Arc<AtomicU64>, handed: Arc<AtomicU64>, exhausted: Arc<AtomicU64> }

impl TM {
    fn ref_next(&self, fm: &FieldMap, consumed: &BTreeSet<(String, usize)>, tag: &str) -> Option<(String, usize)> {
        fm.get(tag).and_then(|vs| vs.iter().find(|(_, p)| !consumed.contains(&(tag.to_string(), *p))).cloned())
    }
    fn ref_find(&self, fm: &FieldMap, consumed: &BTreeSet<(String, usize)>, base: &str, valid: Option<&[&str]>) -> Option<(String, Option<String>, usize)> {
        if let Some((v, p)) = self.ref_next(fm, consumed, base) { return Some((v, None, p)); }
        let mut best: Option<(String, Option<String>, usize)> = None;
        for (tag, _) in fm.iter() {
            if tag.len() == base.len() + 1 && tag.starts_with(base) && tag.chars().last().map(|c| c.is_ascii_uppercase()).unwrap_or(false) {
                let l = &tag[base.len()..];
                if let Some(valid) = valid { if !valid.contains(&l) { continue; } }
                if let Some((v, p)) = self.ref_next(fm, consumed, tag) { if best.as_ref().map(|b| p < b.2).unwrap_or(true) { best = Some((v, Some(l.to_string()), p)); } }
            }
        }
        best
    }
}

impl Model for TM {
    type State = St; type Action = Op;
    fn init_states(&self) -> Vec<St> { (0..self.maps.len()).map(|i| St { map: i as u32, consumed: BTreeSet::new(), depth: 0, real: FieldConsumptionTracker::new(), bad: false, absorbing: false }).collect() }
    fn actions(&self, s: &St, a: &mut Vec<Op>) {
        if s.absorbing || s.depth >= self.max_depth { return; }
        for t in 0..8u8 { a.push(Op::Take(t)); }
        for t in 0..8u8 { a.push(Op::Next(t)); }
        for b in 0..4u8 { for v in 0..5u8 { a.push(Op::Find(b, v)); } }
    }
    fn next_state(&self, s: &St, op: Op) -> Option<St> {
        self.transitions.fetch_add(1, Ordering::Relaxed);
        let (text, fm) = &self.maps[s.map as usize];
        let mut real = s.real.clone(); let mut consumed = s.consumed.clone();
        let mut bad: Option<(String, String)> = None;
        let empty: Vec<(String, usize)> = vec![];
        match op {
            Op::Next(t) | Op::Take(t) => {
                let tag = TAGS[t as usize];
                let vals = fm.get(tag).unwrap_or(&empty);
                let got = real.get_next_available(tag, vals).map(|(v, p)| (v.to_string(), p));
                let want = self.ref_next(fm, &consumed, tag);
                if got != want {
                    let clause = match (&got, &want) { (None, Some(_)) => "starved", (Some((_, p)), _) if consumed.contains(&(tag.to_string(), *p)) => "double-consumed", _ => "reordered" };
                    bad = Some((format!("C16/FieldConsumptionTracker.get_next_available/{clause}/{}", number_of(tag)), format!("got {:?}, reference {:?}", got, want)));
                }
                if let (Op::Take(_), Some((_, p))) = (op, &got) { real.mark_consumed(tag, *p); consumed.insert((tag.to_string(), *p)); self.handed.fetch_add(1, Ordering::Relaxed); }
                if got.is_none() && !vals.is_empty() { self.exhausted.fetch_add(1, Ordering::Relaxed); }
            }
            Op::Find(b, v) => {
                let base = BASES[b as usize]; let valid = VARIANTS[v as usize];
                let want = self.ref_find(fm, &consumed, base, valid);
                let got = match guarded(|| { let mut r = real.clone(); let g = find_field_with_variant_sequential_constrained(fm, base, &mut r, valid); (g, r) }) { Ok((g, r)) => { real = r; g } Err(l) => { bad = Some((format!("C16/find_field_with_variant_sequential_constrained/panic/{base}"), l)); None } };
                if bad.is_none() && got != want {
                    let clause = match (&got, &want) { (None, Some(_)) => "starved", (Some((_, l, p)), _) if consumed.contains(&(format!("{base}{}", l.clone().unwrap_or_default()), *p)) => "double-consumed", (Some(_), None) => "invented", _ => "reordered" };
                    bad = Some((format!("C16/find_field_with_variant_sequential_constrained/{clause}/{base}:{}", match valid { None => "any".to_string(), Some(v) => v.join("") }), format!("got {:?}, reference {:?}", got, want)));
                }
                if let Some((_, l, p)) = &got { consumed.insert((format!("{base}{}", l.clone().unwrap_or_default()), *p)); self.handed.fetch_add(1, Ordering::Relaxed); }
            }
        }
        if let Some((key, what)) = bad {
            let new = !self.known.contains(&key) && std::env::var("VERIF_DUMP_FINDINGS").is_err();
            self.col.lock().unwrap().add(key, (s.map as u64) * 100 + s.depth as u64, || format!("{what} after {}", op_name(&op)), || json!({"text": text, "consumed_before": s.consumed.iter().map(|(t, p)| format!("{t}@{p}")).collect::<Vec<_>>(), "op": op_name(&op)}));
            return Some(St { map: s.map, consumed, depth: s.depth + 1, real, bad: new, absorbing: true });
        }
        Some(St { map: s.map, consumed, depth: s.depth + 1, real, bad: false, absorbing: false })
    }
    fn properties(&self) -> Vec<Property<Self>> { vec![Property::<Self>::always("tracker hands out every occurrence once, in input order, None only when exhausted", |_, s| !s.bad)] }
}

fn tag_sequences(max_len: usize) -> Vec<Vec<usize>> {
    let mut all = vec![]; let mut cur: Vec<Vec<usize>> = vec![vec![]];
    for _ in 0..max_len {
        let mut nxt = vec![];
        for c in &cur { for t in 0..TAGS.len() { if c.iter().filter(|x| **x == t).count() < 3 { let mut d = c.clone(); d.push(t); nxt.push(d); } } }
        all.extend(nxt.clone()); cur = nxt;
    }
    all
}

fn sr_explore(max_fields: usize, depth: u8, known: &BTreeSet<String>) -> (Collector, u64, u64, Value) {
    let maps: Vec<(String, FieldMap)> = tag_sequences(max_fields).into_iter().map(|seq| {
        let text: String = seq.iter().enumerate().map(|(i, t)| format!(":{}:V{}\n", TAGS[*t], i)).collect();
        let fm = parse_block4_fields(&text).unwrap_or_default();
        (text, fm)
    }).collect();
    let n = maps.len();
    let m = TM { maps, max_depth: depth, known: known.clone(), col: Arc::new(Mutex::new(Collector::new())), transitions: Arc::new(AtomicU64::new(0)), handed: Arc::new(AtomicU64::new(0)), exhausted: Arc::new(AtomicU64::new(0)) };
    let (col, tr, h, e) = (m.col.clone(), m.transitions.clone(), m.handed.clone(), m.exhausted.clone());
    let checker = m.checker().threads(par::threads()).spawn_dfs().join();
    let unique = checker.unique_state_count() as u64;
    let c = col.lock().unwrap().clone();
    (c, unique, tr.load(Ordering::Relaxed), json!({"field_maps": n, "max_fields": max_fields, "depth": depth, "unique_states": unique, "transitions": tr.load(Ordering::Relaxed), "occurrences_handed_out": h.load(Ordering::Relaxed), "exhausted_tag_queries": e.load(Ordering::Relaxed)}))
}

// ------------------------------------------------------------------ sequences

fn check_partition(fm: &FieldMap, cfg: &SequenceConfig, name: &str, text: &str, order: u64, col: &mut Collector) {
    let Ok(Ok(ps)) = guarded(|| split_into_sequences(fm, cfg)) else { return; };
    let all = flatten(fm);
    let mut seen: Vec<(String, String, usize)> = vec![];
    for part in [&ps.sequence_a, &ps.sequence_b, &ps.sequence_c] { seen.extend(flatten(part)); }
    seen.sort_by_key(|x| x.2);
    if seen != all {
        let clause = if seen.len() < all.len() { "lost" } else if seen.len() > all.len() { "not-a-partition" } else { "reordered" };
        let tag = all.iter().find(|x| !seen.contains(x)).or_else(|| seen.iter().find(|x| seen.iter().filter(|y| y == x).count() > 1)).map(|x| x.0.clone()).unwrap_or_default();
        col.add(format!("C16/split_into_sequences/{clause}/{name}:{}", number_of(&tag)), order, || format!("{} fields in, {} assigned", all.len(), seen.len()), || json!({"text": text, "config": name}));
    }
}

struct Acc { col: Collector, evals: u64, buckets: std::collections::HashSet<String> }
fn mk() -> Acc { Acc { col: Collector::new(), evals: 0, buckets: Default::default() } }

pub fn run(ctx: &Ctx) -> i32 {
    let mut ev = Evidence::new("C16", &ctx.tier, "model_checking");
    if std::env::var("VERIF_C16_DIGEST").is_ok() {
        let (c, u, t, _) = sr_explore(if ctx.thorough { 5 } else { 4 }, if ctx.thorough { 6 } else { 5 }, &BTreeSet::new());
        println!("DIGEST {} {} {}", u, t, c.map.keys().cloned().collect::<Vec<_>>().join(","));
        return 0;
    }
    // ---------- (1) tokeniser
    let mut texts: Vec<(String, bool)> = vec![]; // (text, small-scope?)
    let alphabet = mutate::alphabet();
    for mt in crate::common::reg::MT_CODES {
        let (msgs, _) = corpus(mt, 1, if ctx.thorough { 20_000 } else { 3_000 });
        for m in &msgs { texts.push((m.text_lf(), false)); if m.deviations == 0 { texts.push((m.text_lf().replace('\n', "\r\n"), false)); for mu in mutate::single_mutations(&m.toks(), &alphabet, false) { if mu.toks.iter().all(|t| t.content.is_ascii()) { texts.push((tok::render_lf(&mu.toks), false)); } } } }
    }
    let pieces = [":20:", ":50K:", ":50A:", ":61:", ":86:", "x", ":", "\n", "-"];
    let maxl = if ctx.thorough { 7 } else { 6 };
    let mut cur: Vec<String> = vec![String::new()];
    for _ in 0..maxl { let mut nxt = Vec::with_capacity(cur.len() * 9); for c in &cur { for p in pieces { nxt.push(format!("{c}{p}")); } } for t in &nxt { texts.push((t.clone(), true)); } cur = nxt; }
    let n_texts = texts.len();
    let accs = par::par_for(n_texts, 1024, mk, |i, a| {
        let (text, small) = &texts[i];
        a.evals += 1;
        // a line consisting of a lone hyphen is the block terminator for one reader and content for another: unspecified
        if text.split('\n').any(|l| l == "-" || l.starts_with("-:")) { a.buckets.insert("tok:unspecified:lone-hyphen-line".into()); return; }
        match guarded(|| parse_block4_fields(text)) {
            Ok(Ok(fm)) => {
                match compare(text, &fm) {
                    None => { a.buckets.insert(format!("tok:ok:{}", fm.len().min(12))); }
                    Some((clause, tag)) => {
                        let locus = if *small { format!("small-scope:{}", text_class(text)) } else { format!("message:{}", number_of(&tag)) };
                        a.col.add(format!("C16/parse_block4_fields/{clause}/{locus}"), i as u64, || format!("library: {:?}; independent tokeniser: {:?}", flatten(&fm), tok::tokenise(text)), || json!({"text": text}));
                    }
                }
                // (3) sequences on message texts
                if !*small && i % 7 == 0 {
                    for name in ["MT101", "MT104", "MT107", "MT110", "MT204", "default"] {
                        let cfg = if name == "default" { SequenceConfig::default() } else { get_sequence_config(name) };
                        check_partition(&fm, &cfg, name, text, i as u64, &mut a.col);
                    }
                    if let Ok(Ok(items)) = guarded(|| parse_repetitive_sequence::<swift_mt_message::messages::MT103>(&fm, "21")) {
                        let all = flatten(&fm);
                        let first = all.iter().position(|x| x.0 == "21");
                        let expect: Vec<(String, String, usize)> = first.map(|p| all[p..].to_vec()).unwrap_or_default();
                        let mut got: Vec<(String, String, usize)> = items.iter().flat_map(flatten).collect(); got.sort_by_key(|x| x.2);
                        if got != expect { a.col.add("C16/parse_repetitive_sequence/not-a-partition/21".into(), i as u64, || format!("{} expected, {} assigned", expect.len(), got.len()), || json!({"text": text})); }
                    }
                }
            }
            Ok(Err(_)) => {
                // an error is acceptable only when the independent tokeniser sees a malformed marker line
                let want = tok::tokenise(text);
                if !*small && !want.is_empty() { a.col.add("C16/parse_block4_fields/error/message".into(), i as u64, || "Err on a well-formed text block".into(), || json!({"text": text})); }
                a.buckets.insert("tok:err".into());
            }
            Err(l) => { a.col.add(format!("C16/parse_block4_fields/panic/{}", crate::common::guard::short_loc(&l)), i as u64, || l.clone(), || json!({"text": text})); }
        }
    });
    let mut col = Collector::new(); let mut evals = 0; let mut buckets = std::collections::HashSet::new();
    for a in accs { col.merge(a.col); evals += a.evals; buckets.extend(a.buckets); }
    // ---------- (2) stateright on the tracker; twice in-process (different hasher keys) + once in a child process
    let known: BTreeSet<String> = findings::load_known("C16").keys.keys().cloned().collect();
    let (mf, dp) = (if ctx.thorough { 5 } else { 4 }, if ctx.thorough { 6 } else { 5 });
    let (c1, u1, t1, s1) = sr_explore(mf, dp, &known);
    let (c2, u2, t2, _) = sr_explore(mf, dp, &known);
    let k1: Vec<String> = c1.map.keys().cloned().collect(); let k2: Vec<String> = c2.map.keys().cloned().collect();
    // the search stops at the first unlisted discovery, so two runs that both found one are not comparable in size:
    // the reproducibility check applies to complete explorations only (a discovery is a verdict, not a machinery error)
    let discovered = k1.iter().chain(k2.iter()).any(|k| !known.contains(k));
    if !discovered && (u1 != u2 || t1 != t2 || k1 != k2) { eprintln!("MACHINERY: tracker exploration differs between two runs (hash-order dependence in the harness?) {u1}/{t1} vs {u2}/{t2}"); return 2; }
    if discovered { col.merge(c2); }
    let child = std::process::Command::new(std::env::current_exe().unwrap()).args(["C16", &ctx.tier]).env("VERIF_C16_DIGEST", "1").env("VERIF_DUMP_FINDINGS", "1").output();
    let mut child_ok = false;
    if let Ok(o) = child { let so = String::from_utf8_lossy(&o.stdout); if let Some(l) = so.lines().find(|l| l.starts_with("DIGEST")) { let p: Vec<&str> = l.split(' ').collect(); child_ok = p.len() >= 3 && p[1] == u1.to_string() && (std::env::var("VERIF_DUMP_FINDINGS").is_err() || p[2] == t1.to_string()); } }
    col.merge(c1);
    ev.set("states", json!(u1)); ev.set("transitions", json!(t1));
    ev.set("traces_validated_against_impl", json!(t1 + evals));
    ev.set("evaluations", json!(evals + t1));
    ev.set("tracker_state_machine", json!({"engine": "stateright 0.31 spawn_dfs", "run1": s1, "second_run_identical": !discovered, "second_process_same_state_count": child_ok, "state_key": "(field map, consumed (tag,position) set, depth); the real tracker is cloned into the successor"}));
    ev.set("tokeniser", json!({"texts": n_texts, "small_scope_pieces": pieces, "small_scope_max_pieces": maxl}));
    ev.set("distinct_nontrivial", json!(buckets.len() as u64 + u1.min(1000)));
    ev.set("rule", json!("(1) parse_block4_fields on every model message (LF and CRLF), every single structural mutation of the base messages and ALL texts of <= L pieces over {:20: :50K: :50A: :61: :86: x : LF}, compared with an independent line-start tokeniser (tag or base number as key, trimmed content, strictly increasing stamps); (2) stateright DFS over (field map, consumed set): ops get_next_available / +mark_consumed per tag and find_field_with_variant_sequential_constrained per base tag x variant constraint, vs a per-tag FIFO / minimum-position reference; (3) split_into_sequences with 6 configs and parse_repetitive_sequence: assigned fields = input fields, each once"));
    ev.set("samples", json!([{"text": ":20:V0\n:50K:V1\n:50A:V2\n", "ops": ["find_constrained(50, [A,F,K])", "find_constrained(50, None)"]}, {"text": texts[n_texts - 5].0}]));
    ev.set("exhaustive", json!(false));
    ev.assume("a field starts at the beginning of a line with ':NN[A]:'; where normalize_field_tag's doc (50K -> 50) and code (50K kept) disagree either key is accepted");
    if !child_ok { ev.assume("second-process comparison of the tracker state count did not complete"); }
    super::finish(ev, &col)
}

pub fn replay(v: &Value) -> i32 {
    let text = v["case"]["text"].as_str().unwrap_or("");
    let a = format!("{:?}", guarded(|| parse_block4_fields(text).map(|m| flatten(&m)).map_err(|e| e.to_string())));
    let b = format!("{:?}", guarded(|| parse_block4_fields(text).map(|m| flatten(&m)).map_err(|e| e.to_string())));
    if a != b { eprintln!("MACHINERY: replay diverged"); return 2; }
    println!("text {:?}\nlibrary: {a}\nindependent: {:?}\nrecorded: {}", text, tok::tokenise(text), v["what"]);
    0
}
