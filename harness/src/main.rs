mod common;
mod props;
mod spec;

use std::path::PathBuf;

pub fn verif_dir() -> PathBuf {
    if let Ok(d) = std::env::var("VERIF_DIR") { return PathBuf::from(d); }
    PathBuf::from("/verif")
}

pub struct Ctx { pub tier: String, pub thorough: bool }

fn main() {
    let args: Vec<String> = std::env::args().collect();
    if args.len() < 2 { eprintln!("usage: vcheck <Cxx> [quick|thorough] | vcheck <Cxx> --replay <file>"); std::process::exit(2); }
    let id = args[1].clone();
    if id == "--parse" {
        // debugging aid: vcheck --parse <file with one MT message> : auto-parse, print type, JSON and re-serialised text
        let text = std::fs::read_to_string(&args[2]).unwrap_or_default();
        match swift_mt_message::SwiftParser::parse_auto(text.trim_end_matches('\n')) {
            Ok(p) => { println!("type {}\njson {}", p.message_type(), serde_json::to_string(&p).unwrap_or_default()); }
            Err(e) => println!("rejected: {e}"),
        }
        std::process::exit(0);
    }
    if args.len() >= 4 && args[2] == "--replay" {
        std::process::exit(props::replay(&id, &args[3]));
    }
    let tier = args.get(2).cloned().or_else(|| std::env::var("VERIF_TIER").ok()).unwrap_or_else(|| "quick".into());
    let tier = if tier == "thorough" { "thorough".to_string() } else { "quick".to_string() };
    let ctx = Ctx { thorough: tier == "thorough", tier };
    if ctx.thorough { unsafe { std::env::set_var("VERIF_TIER_THOROUGH", "1"); } }
    common::guard::install_hook();
    let code = props::run(&id, &ctx);
    std::process::exit(code);
}
