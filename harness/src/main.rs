mod common;
mod props;
mod spec;

use std::path::PathBuf;

pub fn verif_dir() -> PathBuf {
    if let Ok(d) = std::env::var("VERIF_DIR") { return PathBuf::from(d); }
    PathBuf::from("/verif")
}

pub struct Ctx { pub tier: String, pub thorough: bool }

fn main() {
    let args: Vec<String> = std::env::args().collect();
    if args.len() < 2 { eprintln!("usage: vcheck <Cxx> [quick|thorough] | vcheck <Cxx> --replay <file>"); std::process::exit(2); }
    let id = args[1].clone();
    if args.len() >= 4 && args[2] == "--replay" {
        std::process::exit(props::replay(&id, &args[3]));
    }
    let tier = args.get(2).cloned().or_else(|| std::env::var("VERIF_TIER").ok()).unwrap_or_else(|| "quick".into());
    let tier = if tier == "thorough" { "thorough".to_string() } else { "quick".to_string() };
    let ctx = Ctx { thorough: tier == "thorough", tier };
    if ctx.thorough { unsafe { std::env::set_var("VERIF_TIER_THOROUGH", "1"); } }
    common::guard::install_hook();
    let code = props::run(&id, &ctx);
    std::process::exit(code);
}
