//! Independent block-4 tokeniser (the reference side's reading of a text block).
//! A field starts at the beginning of the text or of a line with `:` + 2 digits + optional
//! uppercase letter + `:`; its content runs to the next such line or to the end marker `-`.

#[derive(Clone, Debug, PartialEq, Eq)]
pub struct Tok { pub tag: String, pub content: String }

pub fn is_tag_start(line: &str) -> Option<(String, usize)> {
    let b = line.as_bytes();
    if b.len() >= 4 && b[0] == b':' && b[1].is_ascii_digit() && b[2].is_ascii_digit() {
        if b[3] == b':' { return Some((line[1..3].to_string(), 4)); }
        if b.len() >= 5 && b[3].is_ascii_uppercase() && b[4] == b':' { return Some((line[1..4].to_string(), 5)); }
    }
    None
}

/// Tokenise block-4 text (LF or CRLF line ends; optional trailing `-` terminator line).
pub fn tokenise(text: &str) -> Vec<Tok> {
    let norm = text.replace("\r\n", "\n");
    let mut out: Vec<Tok> = Vec::new();
    for line in norm.split('\n') {
        if let Some((tag, off)) = is_tag_start(line) {
            out.push(Tok { tag, content: line[off..].to_string() });
        } else if line == "-" || line == "-}" {
            break;
        } else if let Some(last) = out.last_mut() {
            last.content.push('\n');
            last.content.push_str(line);
        }
    }
    for t in &mut out { while t.content.ends_with('\n') { t.content.pop(); } }
    out
}

pub fn render_lf(toks: &[Tok]) -> String {
    let mut s = String::new();
    for t in toks { s.push(':'); s.push_str(&t.tag); s.push(':'); s.push_str(&t.content); s.push('\n'); }
    s
}
/// Canonical serialiser form: CRLF between fields, no trailing line end (as `to_mt_string` documents).
pub fn render_crlf(toks: &[Tok]) -> String {
    let mut parts = Vec::new();
    for t in toks { parts.push(format!(":{}:{}", t.tag, t.content)); }
    parts.join("\r\n")
}
