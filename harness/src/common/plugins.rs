//! In-process drivers for the four dataflow plugin functions (no runtime needed: the futures
//! never pend, so a no-op-waker `block_on` suffices; a Pending poll is a machinery error).
use dataflow_rs::engine::{message::Message, AsyncFunctionHandler, FunctionConfig};
use datalogic_rs::DataLogic;
use serde_json::{json, Value};
use std::future::Future;
use std::sync::Arc;
use std::task::{Context, Poll, RawWaker, RawWakerVTable, Waker};

fn noop_waker() -> Waker {
    fn clone(_: *const ()) -> RawWaker { RawWaker::new(std::ptr::null(), &VT) }
    fn noop(_: *const ()) {}
    static VT: RawWakerVTable = RawWakerVTable::new(clone, noop, noop, noop);
    unsafe { Waker::from_raw(RawWaker::new(std::ptr::null(), &VT)) }
}

pub fn block_on<F: Future>(f: F) -> F::Output {
    let w = noop_waker();
    let mut cx = Context::from_waker(&w);
    let mut f = std::pin::pin!(f);
    for _ in 0..1000 {
        if let Poll::Ready(v) = f.as_mut().poll(&mut cx) { return v; }
    }
    panic!("plugin future pended (machinery error)");
}

fn cfg(name: &str, source: &str, target: &str, extra: Value) -> FunctionConfig {
    let mut input = json!({"source": source, "target": target});
    if let Some(o) = extra.as_object() { for (k, v) in o { input[k] = v.clone(); } }
    FunctionConfig::Custom { name: name.to_string(), input }
}

fn run(h: &dyn AsyncFunctionHandler, msg: &mut Message, c: &FunctionConfig) -> Result<(), String> {
    let dl = Arc::new(DataLogic::new());
    match block_on(h.execute(msg, c, dl)) { Ok(_) => Ok(()), Err(e) => Err(format!("{e}")) }
}

/// parse_mt plugin: returns (parsed JSON, metadata {message_type, method})
pub fn parse_mt(mt: &str) -> Result<(Value, Value), String> {
    let mut m = Message::from_value(&json!({}));
    m.data_mut()["mt"] = Value::String(mt.to_string());
    run(&swift_mt_message::plugin::Parse, &mut m, &cfg("parse_mt", "mt", "parsed", json!({})))?;
    let d = m.data().get("parsed").cloned().unwrap_or(Value::Null);
    let md = m.metadata().get("parsed").cloned().unwrap_or(Value::Null);
    Ok((d, md))
}

/// validate_mt plugin: returns the result object {valid, errors, message_type?}
pub fn validate_mt(mt: &str) -> Result<Value, String> {
    let mut m = Message::from_value(&json!({}));
    m.data_mut()["mt"] = Value::String(mt.to_string());
    run(&swift_mt_message::plugin::Validate, &mut m, &cfg("validate_mt", "mt", "validation", json!({})))?;
    Ok(m.data().get("validation").cloned().unwrap_or(Value::Null))
}

/// publish_mt plugin on the JSON of a SwiftMessage (must carry `message_type`)
pub fn publish_mt(j: &Value) -> Result<String, String> {
    let mut m = Message::from_value(&json!({}));
    m.data_mut()["json"] = j.clone();
    run(&swift_mt_message::plugin::Publish, &mut m, &cfg("publish_mt", "json", "mt", json!({})))?;
    m.data().get("mt").and_then(|v| v.as_str()).map(|s| s.to_string()).ok_or_else(|| "no output".to_string())
}

/// generate_mt plugin on a scenario JSON (payload)
pub fn generate_mt(scenario: &Value) -> Result<Value, String> {
    let mut m = Message::from_value(scenario);
    run(&swift_mt_message::plugin::Generate, &mut m, &cfg("generate_mt", "payload", "generated", json!({})))?;
    Ok(m.data().get("generated").cloned().unwrap_or(Value::Null))
}
