//! Compile-time registry binding the model's names to the crate's real types.
//! A type that disappears from the crate is a build failure (machinery error), never a verdict.

pub const MT_CODES: [&str; 30] = [
    "101", "103", "104", "107", "110", "111", "112", "190", "191", "192", "196", "199", "200", "202", "204",
    "205", "210", "290", "291", "292", "296", "299", "900", "910", "920", "935", "940", "941", "942", "950",
];

/// `with_mt!(code_expr, T => expr, else => expr)` : run `expr` with `T` bound to the body type of `code`.
#[macro_export]
macro_rules! with_mt {
    ($code:expr, $T:ident => $body:expr, else => $other:expr) => {{
        use swift_mt_message::messages::*;
        match $code {
            "101" => { type $T = MT101; $body }
            "103" => { type $T = MT103; $body }
            "104" => { type $T = MT104; $body }
            "107" => { type $T = MT107; $body }
            "110" => { type $T = MT110; $body }
            "111" => { type $T = MT111; $body }
            "112" => { type $T = MT112; $body }
            "190" => { type $T = MT190; $body }
            "191" => { type $T = MT191; $body }
            "192" => { type $T = MT192; $body }
            "196" => { type $T = MT196; $body }
            "199" => { type $T = MT199; $body }
            "200" => { type $T = MT200; $body }
            "202" => { type $T = MT202; $body }
            "204" => { type $T = MT204; $body }
            "205" => { type $T = MT205; $body }
            "210" => { type $T = MT210; $body }
            "290" => { type $T = MT290; $body }
            "291" => { type $T = MT291; $body }
            "292" => { type $T = MT292; $body }
            "296" => { type $T = MT296; $body }
            "299" => { type $T = MT299; $body }
            "900" => { type $T = MT900; $body }
            "910" => { type $T = MT910; $body }
            "920" => { type $T = MT920; $body }
            "935" => { type $T = MT935; $body }
            "940" => { type $T = MT940; $body }
            "941" => { type $T = MT941; $body }
            "942" => { type $T = MT942; $body }
            "950" => { type $T = MT950; $body }
            _ => $other,
        }
    }};
}

pub const FIELD_TYPES: [&str; 114] = [
    "Field11", "Field11R", "Field11S", "Field12", "Field13C", "Field13D", "Field19", "Field20",
    "Field21NoOption", "Field21C", "Field21D", "Field21E", "Field21F", "Field21R", "Field23", "Field23B", "Field23E",
    "Field25NoOption", "Field25A", "Field25P", "Field25AccountIdentification", "Field26T", "Field28", "Field28C", "Field28D",
    "Field30", "Field32A", "Field32B", "Field32C", "Field32D", "Field32", "Field32AB", "Field32AmountCD", "Field33B", "Field34F",
    "Field36", "Field37H",
    "Field50NoOption", "Field50A", "Field50F", "Field50K", "Field50C", "Field50L", "Field50G", "Field50H",
    "Field50InstructingParty", "Field50OrderingCustomerFGH", "Field50OrderingCustomerAFK", "Field50OrderingCustomerNCF", "Field50Creditor",
    "Field51A", "Field52A", "Field52B", "Field52C", "Field52D", "Field52AccountServicingInstitution", "Field52OrderingInstitution",
    "Field52CreditorBank", "Field52DrawerBank", "Field53A", "Field53B", "Field53D", "Field53SenderCorrespondent",
    "Field54A", "Field54B", "Field54D", "Field54ReceiverCorrespondent", "Field55A", "Field55B", "Field55D", "Field55ThirdReimbursementInstitution",
    "Field56A", "Field56C", "Field56D", "Field56Intermediary", "Field56IntermediaryAD",
    "Field57A", "Field57B", "Field57C", "Field57D", "Field57", "Field57DebtInstitution", "Field58A", "Field58D", "Field58",
    "Field59F", "Field59A", "Field59NoOption", "Field59", "Field59Debtor",
    "Field60F", "Field60M", "Field60", "Field61", "Field62F", "Field62M", "Field62", "Field64", "Field65",
    "Field70", "Field71A", "Field71F", "Field71G", "Field71B", "Field72", "Field75", "Field76", "Field77T", "Field77A", "Field77B",
    "Field79", "Field86", "Field90D", "Field90C",
];

/// `with_field!(name_expr, T => expr, else => expr)`
#[macro_export]
macro_rules! with_field {
    ($name:expr, $T:ident => $body:expr, else => $other:expr) => {{
        use swift_mt_message::fields::*;
        match $name {
            "Field11" => { type $T = Field11; $body }
            "Field11R" => { type $T = Field11R; $body }
            "Field11S" => { type $T = Field11S; $body }
            "Field12" => { type $T = Field12; $body }
            "Field13C" => { type $T = Field13C; $body }
            "Field13D" => { type $T = Field13D; $body }
            "Field19" => { type $T = Field19; $body }
            "Field20" => { type $T = Field20; $body }
            "Field21NoOption" => { type $T = Field21NoOption; $body }
            "Field21C" => { type $T = Field21C; $body }
            "Field21D" => { type $T = Field21D; $body }
            "Field21E" => { type $T = Field21E; $body }
            "Field21F" => { type $T = Field21F; $body }
            "Field21R" => { type $T = Field21R; $body }
            "Field23" => { type $T = Field23; $body }
            "Field23B" => { type $T = Field23B; $body }
            "Field23E" => { type $T = Field23E; $body }
            "Field25NoOption" => { type $T = Field25NoOption; $body }
            "Field25A" => { type $T = Field25A; $body }
            "Field25P" => { type $T = Field25P; $body }
            "Field25AccountIdentification" => { type $T = Field25AccountIdentification; $body }
            "Field26T" => { type $T = Field26T; $body }
            "Field28" => { type $T = Field28; $body }
            "Field28C" => { type $T = Field28C; $body }
            "Field28D" => { type $T = Field28D; $body }
            "Field30" => { type $T = Field30; $body }
            "Field32A" => { type $T = Field32A; $body }
            "Field32B" => { type $T = Field32B; $body }
            "Field32C" => { type $T = Field32C; $body }
            "Field32D" => { type $T = Field32D; $body }
            "Field32" => { type $T = Field32; $body }
            "Field32AB" => { type $T = Field32AB; $body }
            "Field32AmountCD" => { type $T = Field32AmountCD; $body }
            "Field33B" => { type $T = Field33B; $body }
            "Field34F" => { type $T = Field34F; $body }
            "Field36" => { type $T = Field36; $body }
            "Field37H" => { type $T = Field37H; $body }
            "Field50NoOption" => { type $T = Field50NoOption; $body }
            "Field50A" => { type $T = Field50A; $body }
            "Field50F" => { type $T = Field50F; $body }
            "Field50K" => { type $T = Field50K; $body }
            "Field50C" => { type $T = Field50C; $body }
            "Field50L" => { type $T = Field50L; $body }
            "Field50G" => { type $T = Field50G; $body }
            "Field50H" => { type $T = Field50H; $body }
            "Field50InstructingParty" => { type $T = Field50InstructingParty; $body }
            "Field50OrderingCustomerFGH" => { type $T = Field50OrderingCustomerFGH; $body }
            "Field50OrderingCustomerAFK" => { type $T = Field50OrderingCustomerAFK; $body }
            "Field50OrderingCustomerNCF" => { type $T = Field50OrderingCustomerNCF; $body }
            "Field50Creditor" => { type $T = Field50Creditor; $body }
            "Field51A" => { type $T = Field51A; $body }
            "Field52A" => { type $T = Field52A; $body }
            "Field52B" => { type $T = Field52B; $body }
            "Field52C" => { type $T = Field52C; $body }
            "Field52D" => { type $T = Field52D; $body }
            "Field52AccountServicingInstitution" => { type $T = Field52AccountServicingInstitution; $body }
            "Field52OrderingInstitution" => { type $T = Field52OrderingInstitution; $body }
            "Field52CreditorBank" => { type $T = Field52CreditorBank; $body }
            "Field52DrawerBank" => { type $T = Field52DrawerBank; $body }
            "Field53A" => { type $T = Field53A; $body }
            "Field53B" => { type $T = Field53B; $body }
            "Field53D" => { type $T = Field53D; $body }
            "Field53SenderCorrespondent" => { type $T = Field53SenderCorrespondent; $body }
            "Field54A" => { type $T = Field54A; $body }
            "Field54B" => { type $T = Field54B; $body }
            "Field54D" => { type $T = Field54D; $body }
            "Field54ReceiverCorrespondent" => { type $T = Field54ReceiverCorrespondent; $body }
            "Field55A" => { type $T = Field55A; $body }
            "Field55B" => { type $T = Field55B; $body }
            "Field55D" => { type $T = Field55D; $body }
            "Field55ThirdReimbursementInstitution" => { type $T = Field55ThirdReimbursementInstitution; $body }
            "Field56A" => { type $T = Field56A; $body }
            "Field56C" => { type $T = Field56C; $body }
            "Field56D" => { type $T = Field56D; $body }
            "Field56Intermediary" => { type $T = Field56Intermediary; $body }
            "Field56IntermediaryAD" => { type $T = Field56IntermediaryAD; $body }
            "Field57A" => { type $T = Field57A; $body }
            "Field57B" => { type $T = Field57B; $body }
            "Field57C" => { type $T = Field57C; $body }
            "Field57D" => { type $T = Field57D; $body }
            "Field57" => { type $T = Field57; $body }
            "Field57DebtInstitution" => { type $T = Field57DebtInstitution; $body }
            "Field58A" => { type $T = Field58A; $body }
            "Field58D" => { type $T = Field58D; $body }
            "Field58" => { type $T = Field58; $body }
            "Field59F" => { type $T = Field59F; $body }
            "Field59A" => { type $T = Field59A; $body }
            "Field59NoOption" => { type $T = Field59NoOption; $body }
            "Field59" => { type $T = Field59; $body }
            "Field59Debtor" => { type $T = Field59Debtor; $body }
            "Field60F" => { type $T = Field60F; $body }
            "Field60M" => { type $T = Field60M; $body }
            "Field60" => { type $T = Field60; $body }
            "Field61" => { type $T = Field61; $body }
            "Field62F" => { type $T = Field62F; $body }
            "Field62M" => { type $T = Field62M; $body }
            "Field62" => { type $T = Field62; $body }
            "Field64" => { type $T = Field64; $body }
            "Field65" => { type $T = Field65; $body }
            "Field70" => { type $T = Field70; $body }
            "Field71A" => { type $T = Field71A; $body }
            "Field71F" => { type $T = Field71F; $body }
            "Field71G" => { type $T = Field71G; $body }
            "Field71B" => { type $T = Field71B; $body }
            "Field72" => { type $T = Field72; $body }
            "Field75" => { type $T = Field75; $body }
            "Field76" => { type $T = Field76; $body }
            "Field77T" => { type $T = Field77T; $body }
            "Field77A" => { type $T = Field77A; $body }
            "Field77B" => { type $T = Field77B; $body }
            "Field79" => { type $T = Field79; $body }
            "Field86" => { type $T = Field86; $body }
            "Field90D" => { type $T = Field90D; $body }
            "Field90C" => { type $T = Field90C; $body }
            _ => $other,
        }
    }};
}
