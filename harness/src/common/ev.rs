//! Evidence files (schema: /root/.vp/EVIDENCE.schema.json), written by the engine on every run.
use serde_json::{json, Map, Value};
use std::time::Instant;

pub struct Evidence {
    pub property_id: String,
    pub tier: String,
    pub seed: i64,
    pub level: String,
    pub coverage: Map<String, Value>,
    pub assumptions: Vec<String>,
    pub start: Instant,
    pub violations: i64,
}

impl Evidence {
    pub fn new(id: &str, tier: &str, level: &str) -> Self {
        let seed = std::env::var("VERIF_SEED").ok().and_then(|s| s.parse::<i64>().ok()).unwrap_or(0);
        Evidence { property_id: id.into(), tier: tier.into(), seed, level: level.into(), coverage: Map::new(), assumptions: vec![], start: Instant::now(), violations: 0 }
    }
    pub fn set(&mut self, k: &str, v: Value) { self.coverage.insert(k.into(), v); }
    pub fn add_count(&mut self, k: &str, n: u64) {
        let cur = self.coverage.get(k).and_then(|v| v.as_u64()).unwrap_or(0);
        self.coverage.insert(k.into(), json!(cur + n));
    }
    pub fn sample(&mut self, v: Value) {
        let e = self.coverage.entry("samples").or_insert_with(|| json!([]));
        if let Some(a) = e.as_array_mut() { if a.len() < 12 { a.push(v); } }
    }
    pub fn assume(&mut self, s: &str) { self.assumptions.push(s.into()); }
    pub fn write(&self) {
        let v = json!({
            "property_id": self.property_id, "tier": self.tier, "seed": self.seed, "level": self.level,
            "coverage": Value::Object(self.coverage.clone()), "assumptions": self.assumptions,
            "wall_s": (self.start.elapsed().as_secs_f64() * 1000.0).round() / 1000.0, "violations": self.violations,
        });
        let dir = crate::verif_dir().join("evidence");
        let _ = std::fs::create_dir_all(&dir);
        let p = dir.join(format!("{}.json", self.property_id));
        std::fs::write(&p, serde_json::to_string_pretty(&v).unwrap() + "\n").expect("write evidence");
    }
}
