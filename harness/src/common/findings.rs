//! Violation collector, finding keys, known-findings file, replay artefacts.
use serde_json::{json, Value};
use std::collections::{BTreeMap, BTreeSet};

#[derive(Clone, Debug)]
pub struct Finding { pub key: String, pub what: String, pub case: Value, pub order: u64, pub count: u64 }

/// Per-worker collector; merged at the end. For each key the example with the smallest `order`
/// (case index) is kept, so the reported example does not depend on thread scheduling.
#[derive(Default, Clone)]
pub struct Collector { pub map: BTreeMap<String, Finding> }

impl Collector {
    pub fn new() -> Self { Self::default() }
    pub fn add(&mut self, key: String, order: u64, what: impl FnOnce() -> String, case: impl FnOnce() -> Value) {
        match self.map.get_mut(&key) {
            Some(f) => {
                f.count += 1;
                if order < f.order { f.order = order; f.what = what(); f.case = case(); }
            }
            None => { self.map.insert(key.clone(), Finding { key, what: what(), case: case(), order, count: 1 }); }
        }
    }
    pub fn merge(&mut self, other: Collector) {
        for (k, f) in other.map {
            match self.map.get_mut(&k) {
                Some(g) => { g.count += f.count; if f.order < g.order { g.order = f.order; g.what = f.what; g.case = f.case; } }
                None => { self.map.insert(k, f); }
            }
        }
    }
    pub fn len(&self) -> usize { self.map.len() }
}

pub struct Known { pub keys: BTreeMap<String, String>, pub fixed: Vec<String> }

pub fn load_known(prop: &str) -> Known {
    let p = crate::verif_dir().join("known_findings.json");
    let mut keys = BTreeMap::new();
    let mut fixed = vec![];
    if let Ok(s) = std::fs::read_to_string(&p) {
        let v: Value = serde_json::from_str(&s).expect("known_findings.json is not valid JSON (machinery error)");
        for e in v.get("known").and_then(|k| k.as_array()).cloned().unwrap_or_default() {
            if e.get("property").and_then(|x| x.as_str()) == Some(prop) {
                keys.insert(e["key"].as_str().unwrap_or("").to_string(), e.get("what").and_then(|x| x.as_str()).unwrap_or("").to_string());
            }
        }
        for e in v.get("fixed").and_then(|k| k.as_array()).cloned().unwrap_or_default() {
            if let Some(s) = e.as_str() { if s.contains(&format!("property={prop}")) { fixed.push(s.to_string()); } }
        }
    }
    Known { keys, fixed }
}

fn fnv(s: &str) -> u64 { let mut h = 0xcbf29ce484222325u64; for b in s.bytes() { h ^= b as u64; h = h.wrapping_mul(0x100000001b3); } h }

/// Print KNOWN-FINDING / VIOLATION lines, write replay files; returns (unlisted violations, known seen).
pub fn conclude(prop: &str, col: &Collector) -> (usize, usize) {
    let known = load_known(prop);
    let dir = crate::verif_dir().join("replays").join(prop);
    let _ = std::fs::create_dir_all(&dir);
    let mut unlisted = 0; let mut seen_known = 0;
    let mut seen: BTreeSet<&str> = BTreeSet::new();
    let dump = std::env::var("VERIF_DUMP_FINDINGS").is_ok();
    let mut dumped = vec![];
    for (k, f) in &col.map {
        seen.insert(k.as_str());
        let is_known = known.keys.contains_key(k);
        let path = dir.join(format!("{:016x}.json", fnv(k)));
        let rec = json!({"property": prop, "key": k, "what": f.what, "case": f.case, "occurrences": f.count, "known": is_known});
        if is_known {
            seen_known += 1;
            println!("KNOWN-FINDING: property={} {} {}", prop, k, known.keys[k]);
        } else {
            let _ = std::fs::write(&path, serde_json::to_string_pretty(&rec).unwrap() + "\n");
            unlisted += 1;
            println!("VIOLATION property={} replay={} key={} what={}", prop, path.display(), k, f.what.replace('\n', "\\n"));
        }
        if dump { dumped.push(json!({"property": prop, "key": k, "what": f.what, "example": f.case})); }
    }
    for k in known.keys.keys() {
        if !seen.contains(k.as_str()) { println!("note: listed finding not reproduced on this tree/tier: property={} {}", prop, k); }
    }
    if dump {
        let p = crate::verif_dir().join(format!("replays/{prop}.findings-dump.json"));
        let _ = std::fs::write(p, serde_json::to_string_pretty(&Value::Array(dumped)).unwrap());
    }
    (unlisted, seen_known)
}
