//! Panic containment: every call into the subject goes through `guarded`.
use std::cell::RefCell;
use std::panic::{catch_unwind, AssertUnwindSafe};
use std::sync::Once;

thread_local! {
    static LAST_PANIC: RefCell<Option<String>> = const { RefCell::new(None) };
    static QUIET: RefCell<bool> = const { RefCell::new(false) };
}
static HOOK: Once = Once::new();

pub fn install_hook() {
    HOOK.call_once(|| {
        let prev = std::panic::take_hook();
        std::panic::set_hook(Box::new(move |info| {
            let quiet = QUIET.with(|q| *q.borrow());
            if quiet {
                let loc = info.location().map(|l| format!("{}:{}", l.file(), l.line())).unwrap_or_else(|| "?".into());
                let msg = info.payload().downcast_ref::<&str>().map(|s| s.to_string()).or_else(|| info.payload().downcast_ref::<String>().cloned()).unwrap_or_default();
                LAST_PANIC.with(|p| *p.borrow_mut() = Some(format!("{loc}|{}", panic_class(&msg))));
            } else {
                prev(info);
            }
        }));
    });
}

/// Run `f`; on panic return Err(location "file:line").
pub fn guarded<T>(f: impl FnOnce() -> T) -> Result<T, String> {
    install_hook();
    QUIET.with(|q| *q.borrow_mut() = true);
    let r = catch_unwind(AssertUnwindSafe(f));
    QUIET.with(|q| *q.borrow_mut() = false);
    match r {
        Ok(v) => Ok(v),
        Err(_) => Err(LAST_PANIC.with(|p| p.borrow_mut().take()).unwrap_or_else(|| "?".into())),
    }
}

/// A short class of a panic message (no input-dependent text, no numbers).
pub fn panic_class(msg: &str) -> String {
    let m = msg.to_ascii_lowercase();
    for (needle, class) in [("char boundary", "char-boundary"), ("out of range", "index-range"), ("out of bounds", "index-range"), ("on a `none`", "unwrap-none"),
        ("on an `err`", "unwrap-err"), ("overflow", "overflow"), ("begin <= end", "slice-order"), ("slice index starts at", "slice-order"), ("divide by zero", "div-zero"), ("verif:", "verif")] {
        if m.contains(needle) { return class.to_string(); }
    }
    let w: Vec<&str> = m.split(|c: char| !c.is_ascii_alphabetic()).filter(|w| !w.is_empty()).take(3).collect();
    if w.is_empty() { "panic".into() } else { w.join("-") }
}

/// Stable locus of a panic for finding keys: the source file below `src/` (so keys survive other
/// checkouts) *without* the line number (so they survive unrelated edits of that file) plus the
/// class of the panic message. `loc` is what `guarded` returns: "file:line|class".
pub fn short_loc(loc: &str) -> String {
    let (fl, class) = loc.split_once('|').unwrap_or((loc, ""));
    let file = fl.rsplit_once(':').map(|(f, _)| f).unwrap_or(fl);
    let file = if let Some(i) = file.rfind("/src/") { &file[i + 1..] } else { file };
    if class.is_empty() { file.to_string() } else { format!("{file}#{class}") }
}
