//! Panic containment: every call into the subject goes through `guarded`.
use std::cell::RefCell;
use std::panic::{catch_unwind, AssertUnwindSafe};
use std::sync::Once;

thread_local! {
    static LAST_PANIC: RefCell<Option<String>> = const { RefCell::new(None) };
    static QUIET: RefCell<bool> = const { RefCell::new(false) };
}
static HOOK: Once = Once::new();

pub fn install_hook() {
    HOOK.call_once(|| {
        let prev = std::panic::take_hook();
        std::panic::set_hook(Box::new(move |info| {
            let quiet = QUIET.with(|q| *q.borrow());
            if quiet {
                let loc = info.location().map(|l| format!("{}:{}", l.file(), l.line())).unwrap_or_else(|| "?".into());
                LAST_PANIC.with(|p| *p.borrow_mut() = Some(loc));
            } else {
                prev(info);
            }
        }));
    });
}

/// Run `f`; on panic return Err(location "file:line").
pub fn guarded<T>(f: impl FnOnce() -> T) -> Result<T, String> {
    install_hook();
    QUIET.with(|q| *q.borrow_mut() = true);
    let r = catch_unwind(AssertUnwindSafe(f));
    QUIET.with(|q| *q.borrow_mut() = false);
    match r {
        Ok(v) => Ok(v),
        Err(_) => Err(LAST_PANIC.with(|p| p.borrow_mut().take()).unwrap_or_else(|| "?".into())),
    }
}

/// Strip an absolute path down to the part below `src/` so keys are stable across checkouts.
pub fn short_loc(loc: &str) -> String {
    if let Some(i) = loc.rfind("/src/") { loc[i + 1..].to_string() } else { loc.to_string() }
}
