//! Deterministic data-parallel helpers (std threads, disjoint index ranges).
use std::sync::atomic::{AtomicUsize, Ordering};

pub fn threads() -> usize {
    std::env::var("VERIF_THREADS").ok().and_then(|s| s.parse().ok()).unwrap_or_else(|| {
        std::thread::available_parallelism().map(|n| n.get()).unwrap_or(8)
    })
}

/// Run `f(i, &mut acc)` for every i in 0..n on all cores; each worker owns one accumulator
/// (created by `mk`); the accumulators are returned in worker order. Work is handed out in
/// chunks; since all accumulators are merged with commutative operations (counts, min-by-index
/// examples) the final result does not depend on scheduling.
pub fn par_for<A: Send, F: Fn(usize, &mut A) + Sync, M: Fn() -> A + Sync>(n: usize, chunk: usize, mk: M, f: F) -> Vec<A> {
    let next = AtomicUsize::new(0);
    let nt = threads().min(n.max(1));
    let chunk = chunk.max(1);
    std::thread::scope(|s| {
        let mut hs = Vec::new();
        for _ in 0..nt {
            hs.push(s.spawn(|| {
                let mut acc = mk();
                loop {
                    let start = next.fetch_add(chunk, Ordering::Relaxed);
                    if start >= n { break; }
                    let end = (start + chunk).min(n);
                    for i in start..end { f(i, &mut acc); }
                }
                acc
            }));
        }
        hs.into_iter().map(|h| h.join().expect("worker panicked (machinery error)")).collect()
    })
}
