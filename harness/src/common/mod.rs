pub mod ev;
pub mod findings;
pub mod par;
pub mod guard;
pub mod tok;
pub mod reg;
pub mod plugins;
