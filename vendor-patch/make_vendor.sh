#!/bin/bash
# placeholder until the rand seam (C15) is built: nothing to vendor yet
exit 0
