#!/bin/bash
# Produce harness/vendor/rand: the registry source of rand 0.9.2 with a test seam in ThreadRng
# (thread-local replacement source consulted by next_u32 / next_u64 / fill_bytes; without an
# installed source the real ChaCha generator is used). Offline: reads the cargo registry only.
set -e
here="$(cd "$(dirname "$0")/.." && pwd)"
dst="$here/harness/vendor/rand"
src=$(ls -d "${CARGO_HOME:-$HOME/.cargo}"/registry/src/*/rand-0.9.2 2>/dev/null | head -1)
[ -n "$src" ] || { echo "rand-0.9.2 not in the cargo registry"; exit 1; }
want="$(cd "$src" && cat src/rngs/thread.rs src/rngs/mod.rs | sha256sum | cut -d' ' -f1)"
if [ -f "$dst/.verif-patched" ] && [ "$(cat "$dst/.verif-patched")" = "$want" ]; then :; else
rm -rf "$dst"; mkdir -p "$here/harness/vendor"; cp -r "$src" "$dst"; chmod -R u+w "$dst"
python3 - "$dst" <<'PY'
import sys,re
d=sys.argv[1]
p=d+'/src/rngs/thread.rs'; s=open(p).read()
seam='''
// ---- verification seam (added by /verif/vendor-patch/make_vendor.sh) ----
thread_local! {
    static VERIF_SOURCE: core::cell::RefCell<Option<std::boxed::Box<dyn FnMut() -> u64>>> = const { core::cell::RefCell::new(None) };
}
/// Install (Some) or remove (None) a replacement source for this thread's `ThreadRng`.
pub fn verif_set_source(f: Option<std::boxed::Box<dyn FnMut() -> u64>>) {
    VERIF_SOURCE.with(|s| *s.borrow_mut() = f);
}
#[inline]
fn verif_next() -> Option<u64> {
    VERIF_SOURCE.with(|s| s.borrow_mut().as_mut().map(|f| f()))
}
// ---- end of seam ----

impl RngCore for ThreadRng {'''
assert s.count('impl RngCore for ThreadRng {')==1
s=s.replace('impl RngCore for ThreadRng {', seam)
s=s.replace('''    fn next_u32(&mut self) -> u32 {
        // SAFETY''','''    fn next_u32(&mut self) -> u32 {
        if let Some(v) = verif_next() { return (v >> 32) as u32; }
        // SAFETY''')
s=s.replace('''    fn next_u64(&mut self) -> u64 {
        // SAFETY''','''    fn next_u64(&mut self) -> u64 {
        if let Some(v) = verif_next() { return v; }
        // SAFETY''')
s=s.replace('''    fn fill_bytes(&mut self, dest: &mut [u8]) {
        // SAFETY''','''    fn fill_bytes(&mut self, dest: &mut [u8]) {
        if let Some(first) = verif_next() {
            let mut w = first;
            for (i, chunk) in dest.chunks_mut(8).enumerate() {
                if i > 0 { w = verif_next().unwrap_or(w); }
                for (b, x) in chunk.iter_mut().zip(w.to_le_bytes()) { *b = x; }
            }
            return;
        }
        // SAFETY''')
assert s.count('verif_next()')>=4
open(p,'w').write(s)
p=d+'/src/rngs/mod.rs'; s=open(p).read()
assert 'pub use self::thread::ThreadRng;' in s
s=s.replace('pub use self::thread::ThreadRng;','pub use self::thread::ThreadRng;\n#[cfg(feature = "thread_rng")]\npub use self::thread::verif_set_source;')
open(p,'w').write(s)
PY
rm -f "$dst/.cargo-checksum.json" "$dst/.cargo-ok" "$dst/.cargo_vcs_info.json"
echo "$want" > "$dst/.verif-patched"
fi

# ---- datafake-rs 0.2.1: clock seam (the "date"/"datetime" generators read Utc::now()) ----
dst2="$here/harness/vendor/datafake-rs"
src2=$(ls -d "${CARGO_HOME:-$HOME/.cargo}"/registry/src/*/datafake-rs-0.2.1 2>/dev/null | head -1)
[ -n "$src2" ] || { echo "datafake-rs-0.2.1 not in the cargo registry"; exit 1; }
want2="$(cd "$src2" && cat src/operators/fake.rs src/lib.rs | sha256sum | cut -d' ' -f1)"
if [ -f "$dst2/.verif-patched" ] && [ "$(cat "$dst2/.verif-patched")" = "$want2" ]; then exit 0; fi
rm -rf "$dst2"; cp -r "$src2" "$dst2"; chmod -R u+w "$dst2"
python3 - "$dst2" <<'PY'
import sys
d=sys.argv[1]
p=d+'/src/operators/fake.rs'; s=open(p).read()
n=s.count('Utc::now()'); assert n>=2, n
s=s.replace('Utc::now()','crate::verif_clock::now()')
open(p,'w').write(s)
p=d+'/src/lib.rs'; s=open(p).read()
s+="""
/// verification seam (added by /verif/vendor-patch/make_vendor.sh): thread-local replacement clock
pub mod verif_clock {
    use chrono::{DateTime, TimeZone, Utc};
    thread_local! { static NOW: std::cell::Cell<Option<i64>> = const { std::cell::Cell::new(None) }; }
    /// Install (Some(unix seconds)) or remove (None) the replacement clock of this thread.
    pub fn set(t: Option<i64>) { NOW.with(|c| c.set(t)); }
    pub fn now() -> DateTime<Utc> {
        match NOW.with(|c| c.get()) {
            Some(t) => Utc.timestamp_opt(t, 0).single().unwrap_or_else(Utc::now),
            None => Utc::now(),
        }
    }
}
"""
open(p,'w').write(s)
PY
rm -f "$dst2/.cargo-checksum.json" "$dst2/.cargo-ok" "$dst2/.cargo_vcs_info.json"
echo "$want2" > "$dst2/.verif-patched"
